package hermes

// Demonstration for property C14 (configuration precedence: batch line over
// project configuration over defaults).
//
// Copy this file into hermes/ and run
//
//	go test -vet=off -count=1 -run 'TestC14' .
//
// TestC14TextValueContainingEqualsSign   - primary finding (run.go, argument tokenizer)
// TestC14EnumTextKeyGivenByNameOnTheLine - secondary finding (config.go, commandlineOverride)

import (
	"bytes"
	"io"
	"os"
	"os/exec"
	"path/filepath"
	"sort"
	"strings"
	"testing"
)

func c14CopyFile(t *testing.T, src, dst string) {
	t.Helper()
	if err := os.MkdirAll(filepath.Dir(dst), 0o755); err != nil {
		t.Fatal(err)
	}
	in, err := os.Open(src)
	if err != nil {
		t.Fatal(err)
	}
	defer in.Close()
	out, err := os.Create(dst)
	if err != nil {
		t.Fatal(err)
	}
	defer out.Close()
	if _, err := io.Copy(out, in); err != nil {
		t.Fatal(err)
	}
}

func c14CopyDir(t *testing.T, src, dst string) {
	t.Helper()
	err := filepath.Walk(src, func(p string, info os.FileInfo, err error) error {
		if err != nil {
			return err
		}
		rel, _ := filepath.Rel(src, p)
		if info.IsDir() {
			return os.MkdirAll(filepath.Join(dst, rel), 0o755)
		}
		c14CopyFile(t, p, filepath.Join(dst, rel))
		return nil
	})
	if err != nil {
		t.Fatal(err)
	}
}

// c14Workdir builds a working directory from the shipped example project myP:
//
//	<root>/project/myP/...            (unchanged copy; config.yml says WeatherFolder: "historical")
//	<root>/parameter/...              (unchanged copy)
//	<root>/weather/historical/109_120.csv   (station 109_120, unchanged copy)
//	<root>/weather/scen=2/109_120.csv       (a second scenario: the shipped data of station 109_121)
func c14Workdir(t *testing.T) string {
	t.Helper()
	root := t.TempDir()
	ex, err := filepath.Abs(filepath.Join("..", "examples"))
	if err != nil {
		t.Fatal(err)
	}
	c14CopyDir(t, filepath.Join(ex, "project", "myP"), filepath.Join(root, "project", "myP"))
	c14CopyDir(t, filepath.Join(ex, "parameter"), filepath.Join(root, "parameter"))
	c14CopyFile(t, filepath.Join(ex, "weather", "historical", "109_120.csv"), filepath.Join(root, "weather", "historical", "109_120.csv"))
	c14CopyFile(t, filepath.Join(ex, "weather", "historical", "109_121.csv"), filepath.Join(root, "weather", "scen=2", "109_120.csv"))
	return root
}

// c14Run runs one batch line in-process and returns the result files (name -> content).
func c14Run(t *testing.T, root, name string, line string) (map[string]string, *RunReturn) {
	t.Helper()
	res := filepath.Join(root, "RESULT_"+name)
	if err := os.MkdirAll(res, 0o755); err != nil {
		t.Fatal(err)
	}
	args := strings.Fields(line) // exactly what src/hermes2go does with a batch line
	args = append(args, "resultfolder="+res)
	session := NewHermesSession()
	defer session.Close()
	out := make(chan *RunReturn, 1)
	logout := make(chan string, 10000)
	session.Run(root, args, name, out, logout)
	r := <-out
	files := map[string]string{}
	entries, _ := os.ReadDir(res)
	for _, e := range entries {
		b, err := os.ReadFile(filepath.Join(res, e.Name()))
		if err != nil {
			t.Fatal(err)
		}
		files[e.Name()] = string(b)
	}
	return files, r
}

func c14Same(a, b map[string]string) bool {
	if len(a) != len(b) {
		return false
	}
	for k, v := range a {
		if w, ok := b[k]; !ok || w != v {
			return false
		}
	}
	return true
}

func c14Names(a map[string]string) string {
	var n []string
	for k, v := range a {
		n = append(n, k+"("+itoa(len(v))+")")
	}
	sort.Strings(n)
	return strings.Join(n, " ")
}

func itoa(i int) string {
	if i == 0 {
		return "0"
	}
	s := ""
	for i > 0 {
		s = string(rune('0'+i%10)) + s
		i /= 10
	}
	return s
}

// Primary finding.
//
// WeatherFolder is a configuration key of text kind. The project file says
// WeatherFolder: "historical"; the batch line says WeatherFolder=scen=2 (a legal
// directory name that exists below the weather root). According to the property the
// run has to use the value of the batch line, i.e. it must give exactly the results of
// a run whose project file says WeatherFolder: "scen=2". Instead the whole token is
// dropped without any message and the run silently uses the folder of the project file.
func TestC14TextValueContainingEqualsSign(t *testing.T) {
	root := c14Workdir(t)
	cfgPath := filepath.Join(root, "project", "myP", "config.yml")
	orig, err := os.ReadFile(cfgPath)
	if err != nil {
		t.Fatal(err)
	}
	if !strings.Contains(string(orig), `WeatherFolder: "historical"`) {
		t.Fatal("unexpected example configuration")
	}
	const base = "project=myP plotNr=10001 soilId=075 poligonID=1 EndDate=12311984"

	// reference 1: value only in the project file
	fileCfg := strings.Replace(string(orig), `WeatherFolder: "historical"`, `WeatherFolder: "scen=2"`, 1)
	if err := os.WriteFile(cfgPath, []byte(fileCfg), 0o644); err != nil {
		t.Fatal(err)
	}
	ref, r := c14Run(t, root, "file", base)
	if !r.Success {
		t.Fatalf("reference run (value in the project file) failed: %v", r.Err)
	}
	// reference 2: unchanged project file, no override (WeatherFolder "historical")
	if err := os.WriteFile(cfgPath, orig, 0o644); err != nil {
		t.Fatal(err)
	}
	hist, r := c14Run(t, root, "hist", base)
	if !r.Success {
		t.Fatalf("reference run (no override) failed: %v", r.Err)
	}
	if c14Same(ref, hist) {
		t.Fatal("test setup: the two weather scenarios give identical results")
	}
	t.Logf("results with WeatherFolder \"scen=2\" in the file: %s", c14Names(ref))

	// the same value on the batch line, project file unchanged, in three argument orders
	for i, line := range []string{
		base + " WeatherFolder=scen=2",
		"WeatherFolder=scen=2 " + base,
		"project=myP WeatherFolder=scen=2 plotNr=10001 EndDate=12311984 poligonID=1 soilId=075",
	} {
		got, r := c14Run(t, root, "line"+itoa(i), line)
		if !r.Success {
			t.Errorf("batch line %q: run failed: %v", line, r.Err)
			continue
		}
		switch {
		case c14Same(got, ref):
			// property holds
		case c14Same(got, hist):
			t.Errorf("batch line %q:\n   the value WeatherFolder=scen=2 of the batch line was silently ignored; "+
				"the run used the project file's WeatherFolder \"historical\" (results identical to the run without override)", line)
		default:
			t.Errorf("batch line %q: results differ from both references", line)
		}
	}
}

// Secondary finding.
//
// Dateformat and GroundWaterFrom are written as text in config.yml
// (Dateformat: DateENlong, GroundWaterFrom: soilfile) and are listed as valid batch
// overrides in src/r_wrapper/hermes_wrapper_options.R. Giving them on the batch line
// with the very value the project file already contains must be a no-op; instead
// the process is terminated (log.Fatalf) - in batch mode together with all other runs.
func TestC14EnumTextKeyGivenByNameOnTheLine(t *testing.T) {
	if os.Getenv("C14_CHILD_ROOT") != "" {
		// child process: one in-process run, exit status tells the parent what happened
		root := os.Getenv("C14_CHILD_ROOT")
		_, r := c14Run(t, root, "child", os.Getenv("C14_CHILD_LINE"))
		if !r.Success {
			t.Fatalf("run failed: %v", r.Err)
		}
		return
	}
	root := c14Workdir(t)
	const base = "project=myP plotNr=10001 soilId=075 poligonID=1 EndDate=12311981"
	want, r := c14Run(t, root, "noOverride", base)
	if !r.Success {
		t.Fatalf("reference run failed: %v", r.Err)
	}
	for _, kv := range []string{"GroundWaterFrom=soilfile", "Dateformat=DateENlong"} {
		cmd := exec.Command(os.Args[0], "-test.run=^TestC14EnumTextKeyGivenByNameOnTheLine$", "-test.count=1")
		cmd.Env = append(os.Environ(), "C14_CHILD_ROOT="+root, "C14_CHILD_LINE="+base+" "+kv)
		var buf bytes.Buffer
		cmd.Stdout, cmd.Stderr = &buf, &buf
		err := cmd.Run()
		if err != nil {
			msg := ""
			for _, l := range strings.Split(buf.String(), "\n") {
				if strings.Contains(l, "error") {
					msg = strings.TrimSpace(l)
					break
				}
			}
			t.Errorf("batch line with %s (the value the project file already has): process ended with %v: %s", kv, err, msg)
			continue
		}
		got := map[string]string{}
		entries, _ := os.ReadDir(filepath.Join(root, "RESULT_child"))
		for _, e := range entries {
			b, _ := os.ReadFile(filepath.Join(root, "RESULT_child", e.Name()))
			got[e.Name()] = string(b)
		}
		if !c14Same(got, want) {
			t.Errorf("batch line with %s: results differ from the run without the (redundant) override", kv)
		}
	}
}
