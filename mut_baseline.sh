#!/bin/bash
# ./mut_baseline.sh <worktree>: runs the pinned suite (guard off) in a scratch worktree of /repo and reports stable-pass tests that no longer pass
WT="$1"
export GOPROXY=off GOSUMDB=off GOTOOLCHAIN=local; unset GOFLAGS
MODS="./hermes ./src/calcHermesBatch ./src/calcSoil ./src/climatefileconverter ./src/cropfileconverter ./src/hermes2go ./src/hermes_service ./src/hermes_service/capnp/hermes_service_capnp ./src/producer_consumer ./src/ptf_testing ./src/renderservice ./src/verify_project"
OUT=$(mktemp /tmp/mutbase.XXXXXX.json)
for m in $MODS; do ( cd $WT/$m 2>/dev/null || exit 0; gw=$(go env GOWORK 2>/dev/null); MF=""; if [ -z "$gw" ] || [ "$gw" = off ]; then MF="-mod=mod"; fi; go test $MF -json -vet=off -count=1 -timeout 25m ./... ) >> "$OUT" 2>/dev/null; done
python3 - "$OUT" "$WT" <<'PY'
import json,sys
passed=set()
for l in open(sys.argv[1]):
    try: e=json.loads(l)
    except Exception: continue
    if e.get('Action')=='pass' and e.get('Test'): passed.add(e['Package']+'::'+e['Test'])
base=json.load(open('/root/.vp/BASELINE.json'))['stable_pass']
missing=[t for t in base if t not in passed]
print("worktree",sys.argv[2],"passed",len(passed),"stable_pass missing",len(missing)); [print("MISSING",t) for t in missing[:10]]
sys.exit(1 if missing else 0)
PY
rc=$?; rm -f "$OUT"; exit $rc
