package main

import (
	"fmt"
	"os"
	"path/filepath"
	"strconv"
	"strings"
)

// Materialize writes the project tree of the scenario below root and returns the batch-line tokens.
// Layout: root/parameter -> symlink to the repository's parameter folder (or a copy if paramCopy != ""),
// root/project/<Project>/..., root/weather/<Folder>/...
func (sc *Scenario) Materialize(root string, resultDir string) ([]string, error) {
	hotGen = sc.Hot
	defer func() { hotGen = false }()
	sc.refitCenturySplit()
	proj := filepath.Join(root, "project", sc.Project)
	wdir := filepath.Join(root, "weather", sc.Weather.Folder)
	for _, d := range []string{proj, wdir, resultDir} {
		if err := os.MkdirAll(d, 0755); err != nil {
			return nil, err
		}
	}
	if _, err := os.Lstat(filepath.Join(root, "parameter")); err != nil {
		if err := os.Symlink(paramDir, filepath.Join(root, "parameter")); err != nil {
			return nil, err
		}
	}
	w := func(name, content string) error {
		return os.WriteFile(filepath.Join(proj, name), []byte(content), 0644)
	}
	p := sc.Project
	if err := w("config.yml", sc.configYAML()); err != nil {
		return nil, err
	}
	if sc.FileExt != "" {
		// fileExtension=<ext> on the batch line: rotation, polygon and automatic-management files are read with that extension
		// ("several configurations in one project"); the .txt files next to them are decoys naming a soil that does not exist
		if err := w("poly_"+p+"."+sc.FileExt, sc.polyFile()); err != nil {
			return nil, err
		}
		if sc.FileExt != "txt" {
			decoy := *sc
			decoy.PolySID = "ZZ9"
			w("poly_"+p+".txt", decoy.polyFile())
		}
	} else if err := w("poly_"+p+".txt", sc.polyFile()); err != nil {
		return nil, err
	}
	if sc.Soil.CSV {
		if err := w("soil_"+p+".csv", sc.soilCSV()); err != nil {
			return nil, err
		}
	} else {
		if err := w("soil_"+p+".txt", sc.soilTXT()); err != nil {
			return nil, err
		}
	}
	if sc.FileExt != "" {
		w("crop_"+p+"."+sc.FileExt, sc.rotationFile(sc.RotCSV)) // the configured format decides how it is read, whatever the extension
	} else if sc.RotCSV {
		w("crop_"+p+".csv", sc.rotationFile(true))
	} else {
		w("crop_"+p+".txt", sc.rotationFile(false))
	}
	if sc.MeasCSV {
		w("endit_"+p+".csv", sc.measFile(true))
	} else {
		w("endit_"+p+".txt", sc.measFile(false))
	}
	w("fert_"+p+".txt", sc.fertFile())
	w("til_"+p+".txt", sc.tillFile())
	w("irr_"+p+".txt", sc.irrFile())
	if sc.GWMode == 2 {
		w("gw_"+p+".csv", sc.gwFile())
	}
	if len(sc.Automan) > 0 || sc.AutoSow || sc.AutoFert || sc.AutoIrr || sc.AutoHarvest {
		if sc.FileExt != "" {
			w("automan."+sc.FileExt, sc.automanFile())
		} else {
			w("automan.txt", sc.automanFile())
		}
	}
	w("dailyout_conf.yml", outConfigYAML(sc.DailyCols, sc.OutStyle))
	w("yearlyout_conf.yml", outConfigYAML(sc.YearlyCols, sc.OutStyle))
	w("cropout_conf.yml", outConfigYAML(sc.CropCols, sc.OutStyle))
	w("managementout_conf.yml", managementConfigYAML)
	if err := sc.writeWeather(wdir); err != nil {
		return nil, err
	}
	if sc.PrecipCorr || sc.AlwaysPreco {
		var pb strings.Builder
		pb.WriteString("Mo Corr\n")
		for m := 0; m < 12; m++ {
			fmt.Fprintf(&pb, "%2d %4.2f\n", m+1, sc.PrecoFactors[m])
		}
		if err := os.WriteFile(filepath.Join(wdir, "preco.txt"), []byte(strings.TrimRight(pb.String(), "\n")), 0644); err != nil {
			return nil, err
		}
	}
	args := []string{"project=" + p, "plotNr=" + sc.PlotNr, "poligonID=" + sc.Polygon, "fcode=" + sc.Weather.Code,
		"resultfolder=" + resultDir}
	if sc.ReducedTablesWithout != "" {
		// a parameter folder of the project's own: every shipped file, the two texture tables without one texture
		pdir := "parameter_" + p
		if err := linkParamFolder(filepath.Join(root, pdir), map[string]bool{"HYPAR.TRU": true, "PARCAP.TRU": true}); err != nil {
			return nil, err
		}
		t := strings.ToUpper(strings.TrimSpace(sc.ReducedTablesWithout))
		for _, name := range []string{"HYPAR.TRU", "PARCAP.TRU"} {
			b, err := os.ReadFile(filepath.Join(paramDir, name))
			if err != nil {
				return nil, err
			}
			var keep []string
			lines := strings.Split(string(b), "\n")
			for i := 0; i < len(lines); i++ {
				l := lines[i]
				if (sc.ReducedTablesOnly == "" || sc.ReducedTablesOnly == name) && len(l) >= 3 && strings.ToUpper(strings.TrimSpace(l[0:3])) == t && (i > 0 || name == "PARCAP.TRU") {
					if name == "PARCAP.TRU" {
						i++ // the capillary table has two lines per texture
					}
					continue
				}
				keep = append(keep, l)
			}
			os.WriteFile(filepath.Join(root, pdir, name), []byte(strings.Join(keep, "\n")), 0644)
		}
		args = append(args, "parameter="+pdir)
	}
	if sc.PrivateTexture != "" {
		// a parameter folder of the project's own: every shipped file, the two texture tables with one more class at the end
		pdir := "parameter_" + p
		if err := linkParamFolder(filepath.Join(root, pdir), map[string]bool{"HYPAR.TRU": true, "PARCAP.TRU": true}); err != nil {
			return nil, err
		}
		like := strings.ToUpper(strings.TrimSpace(sc.PrivateTextureLike))
		for _, name := range []string{"HYPAR.TRU", "PARCAP.TRU"} {
			b, err := os.ReadFile(filepath.Join(paramDir, name))
			if err != nil {
				return nil, err
			}
			lines := strings.Split(strings.TrimRight(string(b), "\r\n"), "\n")
			var add []string
			for i := 0; i < len(lines); i++ {
				l := lines[i]
				if len(l) >= 3 && strings.ToUpper(strings.TrimSpace(l[0:3])) == like && (i > 0 || name == "PARCAP.TRU") {
					add = append(add, fmt.Sprintf("%-3s", sc.PrivateTexture)+l[3:])
					if name == "PARCAP.TRU" && i+1 < len(lines) {
						add = append(add, lines[i+1]) // the capillary table has two lines per texture
					}
					break
				}
			}
			if len(add) == 0 {
				return nil, fmt.Errorf("texture %s not found in %s", like, name)
			}
			lines = append(lines, add...)
			os.WriteFile(filepath.Join(root, pdir, name), []byte(strings.Join(lines, "\n")+"\n"), 0644)
		}
		args = append(args, "parameter="+pdir)
	}
	if len(sc.AliasCrops) > 0 {
		// a parameter folder of the project's own: every shipped file plus the parameter files the project supplies
		pdir := "parameter_" + p
		if _, err := os.Lstat(filepath.Join(root, pdir)); err != nil {
			if err := linkParamFolder(filepath.Join(root, pdir), nil); err != nil {
				return nil, err
			}
		}
		for a, src := range sc.AliasCrops {
			for _, ext := range []string{"", ".yml"} {
				b, err := os.ReadFile(filepath.Join(paramDir, "PARAM."+src+ext))
				if err != nil {
					return nil, err
				}
				os.WriteFile(filepath.Join(root, pdir, "PARAM."+a+ext), b, 0644)
			}
		}
		args = append(args, "parameter="+pdir)
	}
	if len(sc.OwnFertRows) > 0 {
		pdir := "parameter_" + p
		if _, err := os.Lstat(filepath.Join(root, pdir)); err != nil {
			if err := linkParamFolder(filepath.Join(root, pdir), nil); err != nil {
				return nil, err
			}
		}
		b, err := os.ReadFile(filepath.Join(paramDir, "FERTILIZ.TXT"))
		if err != nil {
			return nil, err
		}
		lines := strings.Split(strings.TrimRight(string(b), "\r\n"), "\n")
		rowText := func(fr FertRow) string {
			return fmt.Sprintf("%-4s %05.2f %04.2f %04.2f %04.2f %04.2f %04.2f kg N/ha project fertiliser", fr.Name, fr.Ntot, fr.Ndir, fr.Nfst, fr.Nslo, fr.NH4, fr.Loss)
		}
		out := []string{lines[0]}
		for k, fr := range sc.OwnFertRows {
			if sc.OwnFertFront[k] {
				out = append(out, rowText(fr))
			}
		}
		for _, l := range lines[1:] {
			// a row of the project's own under a shipped name replaces the shipped row (the project's formulation of that product)
			if f := strings.Fields(l); len(f) > 0 && sc.ownFertRow(f[0]) != nil {
				continue
			}
			out = append(out, l)
		}
		for k, fr := range sc.OwnFertRows {
			if !sc.OwnFertFront[k] {
				out = append(out, rowText(fr))
			}
		}
		os.Remove(filepath.Join(root, pdir, "FERTILIZ.TXT"))
		if err := os.WriteFile(filepath.Join(root, pdir, "FERTILIZ.TXT"), []byte(strings.Join(out, "\n")+"\n"), 0644); err != nil {
			return nil, err
		}
		args = append(args, "parameter="+pdir)
	}
	if len(sc.OwnNFunction) > 0 {
		pdir := "parameter_" + p
		if _, err := os.Lstat(filepath.Join(root, pdir)); err != nil {
			if err := linkParamFolder(filepath.Join(root, pdir), nil); err != nil {
				return nil, err
			}
		}
		for file, nf := range sc.OwnNFunction {
			b, err := os.ReadFile(filepath.Join(paramDir, file))
			if err != nil {
				return nil, err
			}
			lines := strings.Split(string(b), "\n")
			done := false
			for i, l := range lines {
				if strings.HasPrefix(l, "NGEFKT:") {
					lines[i] = fmt.Sprintf("NGEFKT: %d", nf)
					done = true
				}
			}
			if !done {
				return nil, fmt.Errorf("no NGEFKT line in %s", file)
			}
			os.Remove(filepath.Join(root, pdir, file))
			if err := os.WriteFile(filepath.Join(root, pdir, file), []byte(strings.Join(lines, "\n")), 0644); err != nil {
				return nil, err
			}
		}
		args = append(args, "parameter="+pdir)
	}
	if sc.FileExt != "" {
		args = append(args, "fileExtension="+sc.FileExt)
	}
	if sc.GWId != "" {
		args = append(args, "gwId="+sc.GWId)
	}
	args = append(args, sc.ExtraArgs...)
	return args, nil
}

func onoff(b bool) int {
	if b {
		return 1
	}
	return 0
}

func (sc *Scenario) weatherFileTemplate() string {
	switch sc.Weather.Layout {
	case 0:
		return "MET_%s."
	case 1:
		return "%s.csv"
	default:
		return "%s.w6d"
	}
}

func (sc *Scenario) configYAML() string {
	var b strings.Builder
	f := func(k string, v interface{}) { fmt.Fprintf(&b, "%s: %v\n", k, v) }
	q := func(k string, v string) { fmt.Fprintf(&b, "%s: \"%s\"\n", k, v) }
	f("Dateformat", dateFormatNames[sc.DateFormat])
	f("DivideCentury", sc.DivideCentury)
	f("GroundWaterFrom", []string{"polygonfile", "soilfile", "gwTimeSeries"}[sc.GWMode])
	f("ResultFileFormat", sc.ResultFormat)
	if sc.ResultExt != "" {
		q("ResultFileExt", sc.ResultExt)
	}
	f("OutputIntervall", sc.OutInterval)
	f("ManagementEvents", sc.MgmtEvents)
	f("InitSelection", sc.InitSel)
	f("SoilFile", "soil")
	if sc.Soil.CSV {
		q("SoilFileExtension", "csv")
	} else {
		q("SoilFileExtension", "txt")
	}
	if sc.RotCSV {
		q("CropFileFormat", "csv")
	} else {
		q("CropFileFormat", "txt")
	}
	if sc.CropParamYml {
		q("CropParameterFormat", "yml")
	} else {
		q("CropParameterFormat", "txt")
	}
	if sc.MeasCSV {
		q("MeasurementFileFormat", "csv")
	} else {
		q("MeasurementFileFormat", "txt")
	}
	f("PolygonGridFileName", "poly")
	q("WeatherFile", sc.weatherFileTemplate())
	f("WeatherFileFormat", sc.Weather.Layout)
	q("WeatherFolder", sc.Weather.Folder)
	q("WeatherRootFolder", "./weather/")
	f("WeatherNoneValue", fmtG(sc.Weather.NoneValue))
	f("WeatherNumHeader", sc.Weather.NumHeader)
	f("CorrectionPrecipitation", onoff(sc.PrecipCorr))
	f("AnnualAverageTemperature", fmtG(sc.AnnualTemp))
	f("ETpot", sc.ETpot)
	f("CO2method", sc.CO2Method)
	f("CO2concentration", fmtG(sc.CO2Conc))
	f("CO2StomataInfluence", sc.CO2Stomata)
	f("NDeposition", fmtG(sc.NDeposition))
	f("StartYear", sc.Start.Y)
	q("EndDate", sc.fmtIn(sc.End))
	q("AnnualOutputDate", FmtDayMonth(sc.AnnualDay, sc.AnnualMonth, sc.DateFormat))
	q("VirtualDateFertilizerPrediction", sc.VirtualDate)
	f("Latitude", fmtG(sc.Latitude))
	f("Altitude", fmtG(sc.Altitude))
	f("CoastDistance", fmtG(sc.CoastDist))
	f("PTF", sc.PTF)
	f("LeachingDepth", sc.LeachDepth)
	f("OrganicMatterMineralProportion", fmtG(sc.OrgMinProp))
	f("KcFactorBareSoil", fmtG(sc.KcBare))
	f("PotMineralisation", sc.PotMin)
	f("GroundWaterPhase", sc.GWPhase)
	f("Fertilization", fmtG(sc.Fertilizat))
	f("AutoSowingHarvest", onoff(sc.AutoSow))
	f("AutoFertilization", onoff(sc.AutoFert))
	f("AutoIrrigation", onoff(sc.AutoIrr))
	f("AutoHarvest", onoff(sc.AutoHarvest))
	out := b.String()
	if len(sc.FileOverrides) > 0 {
		lines := strings.Split(strings.TrimRight(out, "\n"), "\n")
		seen := map[string]bool{}
		for i, l := range lines {
			k := l[:strings.Index(l, ":")]
			if v, ok := sc.FileOverrides[k]; ok {
				lines[i] = k + ": " + v
				seen[k] = true
			}
		}
		for k, v := range sc.FileOverrides {
			if !seen[k] {
				lines = append(lines, k+": "+v)
			}
		}
		out = strings.Join(lines, "\n") + "\n"
	}
	return out
}

// fmtIn renders a date for an input file of the scenario: in its date format, with the scenario's separator (none . / -)
func (sc *Scenario) fmtIn(d Date) string { return FmtDateSep(d, sc.DateFormat, sc.DateSep) }

func fmtG(x float64) string { return strconv.FormatFloat(x, 'g', -1, 64) }

func (sc *Scenario) polyFile() string {
	var b strings.Builder
	b.WriteString("Polyg SID  Field_ID  GH GL Ir comment\n")
	if sc.OtherField {
		fmt.Fprintf(&b, "%s %s %s %d %d %d other\n", "77777", "998", "OTHERF", 10, 30, 0)
	}
	sid, fid := sc.Soil.ID, sc.Field
	if sc.PolySID != "" {
		sid = sc.PolySID
	}
	if sc.PolyFieldID != "" {
		fid = sc.PolyFieldID
	}
	fmt.Fprintf(&b, "%s %s %s %d %d %d generated\n", sc.PlotNr, sid, fid, sc.GRHI, sc.GRLO, onoff(sc.IrrFlag))
	b.WriteString("end\n")
	return b.String()
}

func optInt(v int) string {
	if v == 0 {
		return ""
	}
	return strconv.Itoa(v)
}

func (sc *Scenario) soilCSV() string {
	s := &sc.Soil
	hasBD := false
	for _, h := range s.Horizons {
		if h.BD > 0 {
			hasBD = true
		}
	}
	names := []string{"SID", "C_org", "Texture", "LayerDepth", "BulkDensityClass"}
	if hasBD {
		names = append(names, "BulkDensity")
	}
	names = append(names, "Stone", "C/N", "C/S", "RootDepth", "NumberHorizon", "FieldCapacity", "WiltingPoint", "PoreVolume", "Sand", "Silt", "Clay", "DrainageDepth", "Drainage%", "GroundWaterLevel")
	// rows as name -> cell
	var rows []map[string]string
	decoy := map[string]string{"SID": "000", "C_org": "1.00", "Texture": "SL3", "LayerDepth": "03", "BulkDensityClass": "3", "BulkDensity": "", "Stone": "00", "C/N": "10", "C/S": "00",
		"RootDepth": "03", "NumberHorizon": "01", "FieldCapacity": "24", "WiltingPoint": "10", "PoreVolume": "40", "Sand": "73", "Silt": "18", "Clay": "09", "DrainageDepth": "20", "Drainage%": "00", "GroundWaterLevel": "99"}
	rows = append(rows, decoy) // a decoy soil before
	for i, h := range s.Horizons {
		r := map[string]string{"SID": s.ID, "C_org": strconv.FormatFloat(h.Corg, 'f', 2, 64), "Texture": strings.TrimSpace(h.Texture), "LayerDepth": fmt.Sprintf("%02d", h.LowerDM),
			"BulkDensityClass": strconv.Itoa(h.LD), "BulkDensity": "", "Stone": fmt.Sprintf("%02d", h.Stone), "C/N": strconv.Itoa(h.CN), "C/S": "00", "RootDepth": "", "NumberHorizon": "",
			"FieldCapacity": optInt(h.FC), "WiltingPoint": optInt(h.WP), "PoreVolume": optInt(h.PS), "Sand": strconv.Itoa(h.Sand), "Silt": strconv.Itoa(h.Silt), "Clay": strconv.Itoa(h.Clay),
			"DrainageDepth": fmt.Sprintf("%02d", s.DrainDep), "Drainage%": fmtG(s.DrainFrac), "GroundWaterLevel": ""}
		if h.BD > 0 {
			r["BulkDensity"] = strconv.FormatFloat(h.BD, 'f', 2, 64)
		}
		if i == 0 {
			r["RootDepth"], r["NumberHorizon"], r["GroundWaterLevel"] = fmt.Sprintf("%02d", s.RootDepth), fmt.Sprintf("%02d", len(s.Horizons)), fmt.Sprintf("%02d", s.GW)
		}
		rows = append(rows, r)
	}
	// the file is header-driven: a third of the files have their columns in another order and / or one or two further
	// columns the model does not know (a profile name, a remark)
	if rs := NewRng(mix(mix(sc.Seed, uint64(sc.Index)), 9494)); rs.Bool(0.33) {
		if rs.Bool(0.7) {
			for k := len(names) - 1; k > 0; k-- {
				o := rs.Intn(k + 1)
				names[k], names[o] = names[o], names[k]
			}
		}
		for k, n := 0, rs.Range(0, 2); k < n; k++ {
			extra := pickS(rs, []string{"Profile", "Remark", "Horizon", "pH"})
			dup := false
			for _, nm := range names {
				dup = dup || nm == extra
			}
			if dup {
				continue
			}
			at := rs.Intn(len(names) + 1)
			names = append(names, "")
			copy(names[at+1:], names[at:])
			names[at] = extra
			for _, r := range rows {
				r[extra] = pickS(rs, []string{"Ap", "77", "x", "6.5"})
			}
		}
	}
	// a quarter of the files also keep the columns of the classic fixed-width soil file they were converted from, or columns in
	// a near spelling of the documented names (another tool's export), next to the documented ones and holding other numbers:
	// the reader binds the documented names only, whatever else the header holds
	if rn := NewRng(mix(mix(sc.Seed, uint64(sc.Index)), 9595)); rn.Bool(0.25) || sc.SoilClassicCols {
		block := []string{"Corg", "Te", "lb", "B", "St", "Hy", "Rd", "NuHo", "FC", "WP", "PS", "S%", "SI%", "C%", "lamda", "DraiT", "Drai%", "GW", "LBG"}
		if rn.Bool(0.4) && !sc.SoilClassicCols {
			block = []string{"c_org", "texture", "SAND", "Bulk Density", "Bulkdensity", "C_org [%]", "Layerdepth", "Field Capacity", "CN", "Drainage", "Clay%", "stone", "GroundWater", "Pore Volume", "WP"}
		}
		front := rn.Bool(0.5)
		for _, extra := range block {
			if front {
				names = append([]string{extra}, names...)
			} else {
				names = append(names, extra)
			}
			for _, r := range rows {
				r[extra] = pickS(rn, []string{"9.99", "77", "3", "0.5", "55", "12"})
			}
		}
		if front {
			// the soil id stays the first cell of a row (the rows of a profile are found by it)
			for k, nm := range names {
				if nm == "SID" {
					copy(names[1:k+1], names[:k])
					names[0] = "SID"
					break
				}
			}
		}
	}
	var b strings.Builder
	b.WriteString(strings.Join(names, ",") + "\n")
	for _, r := range rows {
		var cells []string
		for _, nm := range names {
			cells = append(cells, r[nm])
		}
		b.WriteString(strings.Join(cells, ",") + "\n")
	}
	return b.String()
}

func put(buf []byte, pos int, s string) {
	copy(buf[pos:], s)
}

func (sc *Scenario) soilTXT() string {
	s := &sc.Soil
	var b strings.Builder
	b.WriteString("SID Corg Te  lb B St C/N C/S Hy Rd NuHo  FC WP PS S% SI% C% lamda DraiT  Drai% GW LBG\n")
	b.WriteString("000 1.00 SL3 03 3 00 10      00 03 01   24 10 40 73 18 09 00  20   00 99 01\n")
	for i, h := range s.Horizons {
		buf := []byte(strings.Repeat(" ", 76))
		put(buf, 0, s.ID)
		put(buf, 4, fmt.Sprintf("%4.2f", h.Corg))
		put(buf, 9, fmt.Sprintf("%-3s", h.Texture))
		put(buf, 13, fmt.Sprintf("%02d", h.LowerDM))
		put(buf, 16, strconv.Itoa(h.LD))
		put(buf, 18, fmt.Sprintf("%02d", h.Stone))
		put(buf, 21, fmt.Sprintf("%-3d", h.CN))
		put(buf, 29, "00")
		if i == 0 {
			put(buf, 32, fmt.Sprintf("%02d", s.RootDepth))
			put(buf, 35, fmt.Sprintf("%02d", len(s.Horizons)))
		}
		if h.FC > 0 {
			put(buf, 40, fmt.Sprintf("%02d", h.FC))
		}
		if h.WP > 0 {
			put(buf, 43, fmt.Sprintf("%02d", h.WP))
		}
		if h.PS > 0 {
			put(buf, 46, fmt.Sprintf("%02d", h.PS))
		}
		put(buf, 49, fmt.Sprintf("%02d", h.Sand))
		put(buf, 52, fmt.Sprintf("%02d", h.Silt))
		put(buf, 55, fmt.Sprintf("%02d", h.Clay))
		put(buf, 58, "00")
		put(buf, 62, fmt.Sprintf("%02d", s.DrainDep))
		put(buf, 67, drainFracTxt(s.DrainFrac))
		if i == 0 {
			put(buf, 70, fmt.Sprintf("%02d", s.GW))
		} else {
			put(buf, 70, "  ")
		}
		b.WriteString(strings.TrimRight(string(buf), " ") + strings.Repeat(" ", 0) + "\n")
	}
	return b.String()
}

// three characters for the drain fraction in the fixed-width soil file
func drainFracTxt(f float64) string {
	switch {
	case f == 0:
		return "00 "
	case f >= 1:
		return "1.0"
	default:
		s := strconv.FormatFloat(f, 'f', 2, 64) // 0.25
		return s[1:]                            // .25
	}
}

func (sc *Scenario) rotationFile(csv bool) string {
	var b strings.Builder
	// the CSV rotation file is header-driven: a third of the files have their columns in another order
	order := []string{"Field_ID", "crop", "sowing", "harvest", "Rex", "yld", "autorg", "variety", "comment"}
	if ro := NewRng(mix(mix(sc.Seed, uint64(sc.Index)), 9595)); csv && ro.Bool(0.33) {
		for k := len(order) - 1; k > 0; k-- {
			o := ro.Intn(k + 1)
			order[k], order[o] = order[o], order[k]
		}
	}
	line := func(field string, e RotEntry) {
		sow := sc.fmtIn(e.Sow)
		har := sc.fmtIn(e.Harvest)
		if csv {
			cell := map[string]string{"Field_ID": field, "crop": fmt.Sprintf("%-3s", e.Crop), "sowing": sow, "harvest": har, "Rex": fmt.Sprintf("%03d", e.Rex), "yld": fmt.Sprintf("%03d", e.Yld),
				"autorg": strconv.Itoa(e.AutOrg), "variety": e.Variety, "comment": "gen"}
			var cells []string
			for _, n := range order {
				cells = append(cells, cell[n])
			}
			b.WriteString(strings.Join(cells, ",") + "\n")
		} else {
			fmt.Fprintf(&b, "%-9s %-3s %s %s %03d %03d %d %s\n", field, e.Crop, sow, har, e.Rex, e.Yld, e.AutOrg, e.Variety)
		}
	}
	if csv {
		b.WriteString(strings.Join(order, ",") + "\n")
	} else {
		b.WriteString("Field_ID    crp  sowing harvst Rex yld autorg variety comment\n")
	}
	if sc.OtherField {
		line("OTHERF", RotEntry{Crop: "WW", Sow: Date{sc.Start.Y - 1, 10, 1}, Harvest: Date{sc.Start.Y, 8, 1}, Rex: 0, Yld: 50})
		line("OTHERF", RotEntry{Crop: "SM", Sow: Date{sc.Start.Y + 1, 5, 1}, Harvest: Date{sc.Start.Y + 1, 10, 1}})
	}
	// a third of the files with several fields are sorted by season, not by field: the entries of the simulated field are
	// interleaved with entries of another field (its lines do not form one block)
	inter := sc.OtherField && NewRng(mix(mix(sc.Seed, uint64(sc.Index)), 8585)).Bool(0.33)
	for i, e := range sc.Rotation {
		line(sc.Field, e)
		if inter && i%2 == 1 {
			line("OTHERF", RotEntry{Crop: "WG", Sow: e.Sow.AddDays(-3), Harvest: e.Harvest.AddDays(4), Rex: 100, Yld: 40})
		}
	}
	if sc.OtherField {
		line("ZZZ", RotEntry{Crop: "WW", Sow: Date{sc.Start.Y - 1, 10, 1}, Harvest: Date{sc.Start.Y, 8, 1}, Rex: 0, Yld: 50})
	}
	return b.String()
}

func (sc *Scenario) measIdent() string {
	switch sc.InitSel {
	case 1:
		return "ALLE"
	case 2:
		return sc.Field
	case 3:
		return sc.PlotNr
	default:
		return sc.Soil.ID
	}
}

func (sc *Scenario) measFile(csv bool) string {
	var b strings.Builder
	// a third of the measurement tables are the short form: the columns of the deeper layers (9-12, 12-15, 15-20 dm) are
	// left out altogether, in the text file as well as in the CSV file (the values of those layers are then 0)
	short := sc.MeasInit && sc.MeasShort
	if csv {
		if short {
			b.WriteString("Id,Date,Nmin0-3,Nmin3-6,Nmin6-9,M,Water0-3,Water3-6,Water6-9\n")
		} else {
			b.WriteString("Id,Date,Nmin0-3,Nmin3-6,Nmin6-9,Nmin9-12,Nmin12-15,Nmin15-20,M,Water0-3,Water3-6,Water6-9,Water9-12,Water12-15,Water15-20\n")
		}
		if sc.MeasInit {
			// a quarter of the CSV files carry cells padded with blanks (a table converted from the fixed-width file keeps them)
			id, pad := sc.measIdent(), ""
			if rp := NewRng(mix(mix(sc.Seed, uint64(sc.Index)), 7474)); rp.Bool(0.25) {
				pad = pickS(rp, []string{" ", "     ", "\t"})
			}
			if short {
				fmt.Fprintf(&b, "%s,%s,%d,%d,%d,%s,%.3f,%.3f,%.3f\n", id+pad, sc.fmtIn(sc.MeasDate)+pad,
					sc.MeasN[0], sc.MeasN[1], sc.MeasN[2], sc.MeasMode, sc.MeasW[0], sc.MeasW[1], sc.MeasW[2])
			} else {
				fmt.Fprintf(&b, "%s,%s,%d,%d,%d,%d,%d,%d,%s,%.3f,%.3f,%.3f,%.3f,%.3f,%.3f\n", id+pad, sc.fmtIn(sc.MeasDate)+pad,
					sc.MeasN[0], sc.MeasN[1], sc.MeasN[2], sc.MeasN[3], sc.MeasN[4], sc.MeasN[5], sc.MeasMode,
					sc.MeasW[0], sc.MeasW[1], sc.MeasW[2], sc.MeasW[3], sc.MeasW[4], sc.MeasW[5])
			}
		}
	} else {
		if short {
			b.WriteString("Plot_ID   Date     Nm03 Nm36 Nm69 M W0_3  W3_6  W6_9\n")
		} else {
			b.WriteString("Plot_ID   Date     Nm03 Nm36 Nm69 M W0_3  W3_6  W6_9  NM9-12 NM12-15 NM15-20  W9-12 W12-15 W15-20\n")
		}
		if sc.MeasInit {
			if short {
				fmt.Fprintf(&b, "%-9s %s %04d %04d %04d %s %.3f %.3f %.3f\n", sc.measIdent(), sc.fmtIn(sc.MeasDate),
					sc.MeasN[0], sc.MeasN[1], sc.MeasN[2], sc.MeasMode, sc.MeasW[0], sc.MeasW[1], sc.MeasW[2])
			} else {
				fmt.Fprintf(&b, "%-9s %s %04d %04d %04d %s %.3f %.3f %.3f %04d   %04d    %04d     %.3f %.3f  %.3f\n", sc.measIdent(), sc.fmtIn(sc.MeasDate),
					sc.MeasN[0], sc.MeasN[1], sc.MeasN[2], sc.MeasMode, sc.MeasW[0], sc.MeasW[1], sc.MeasW[2],
					sc.MeasN[3], sc.MeasN[4], sc.MeasN[5], sc.MeasW[3], sc.MeasW[4], sc.MeasW[5])
			}
		}
		b.WriteString("end\n")
	}
	return b.String()
}

func (sc *Scenario) fertFile() string {
	var b strings.Builder
	b.WriteString("Field_ID  N   Frt date\n")
	if sc.OtherField {
		fmt.Fprintf(&b, "%-9s %03d %-3s %s\n", "OTHERF", 111, "KAS", sc.fmtIn(sc.Start.AddDays(40)))
	}
	for i, e := range sc.Fert {
		fmt.Fprintf(&b, "%-9s %03d %-3s %s\n", sc.Field, e.Amount, e.Type, sc.fmtIn(e.D))
		if sc.OtherField && i%2 == 1 {
			// a file sorted by date holds the rows of several fields interleaved
			fmt.Fprintf(&b, "%-9s %03d %-3s %s\n", "OTHERF", 50+i, "KAS", sc.fmtIn(e.D))
		}
	}
	if sc.OtherField {
		fmt.Fprintf(&b, "%-9s %03d %-3s %s\n", "ZZZ", 99, "RM", sc.fmtIn(sc.Start.AddDays(10)))
	}
	return b.String()
}

func (sc *Scenario) tillFile() string {
	var b strings.Builder
	b.WriteString("Field_ID  Ti Typ date\n          cm\n")
	if sc.OtherField {
		fmt.Fprintf(&b, "%-9s %3d %d   %s\n", "OTHERF", 25, 1, sc.fmtIn(sc.Start.AddDays(33)))
	}
	for i, e := range sc.Till {
		fmt.Fprintf(&b, "%-9s %3d %d   %s\n", sc.Field, e.Depth, e.Type, sc.fmtIn(e.D))
		if sc.OtherField && i%2 == 0 {
			fmt.Fprintf(&b, "%-9s %3d %d   %s\n", "OTHERF", 20, 1, sc.fmtIn(e.D))
		}
	}
	return b.String()
}

func (sc *Scenario) irrFile() string {
	var b strings.Builder
	b.WriteString("Field_ID  Ir N03 date\n          mm mg/l\n")
	// NOTE: the reader skips only ONE header line before the data; the second header line is read as a
	// data line of field "mm" and ignored because its field id does not match.
	if sc.OtherField {
		fmt.Fprintf(&b, "%-9s %d %d %s\n", "OTHERF", 15, 20, sc.fmtIn(sc.Start.AddDays(50)))
	}
	for i, e := range sc.Irr {
		fmt.Fprintf(&b, "%-9s %d %d %s\n", sc.Field, e.MM, e.Conc, sc.fmtIn(e.D))
		if sc.OtherField && i%2 == 0 {
			fmt.Fprintf(&b, "%-9s %d %d %s\n", "OTHERF", 11, 7, sc.fmtIn(e.D))
		}
	}
	b.WriteString("end\n")
	return b.String()
}

func (sc *Scenario) gwFile() string {
	var b strings.Builder
	// the reader takes the first three columns (id, date, level) of rows separated by ',' or ';' and skips one header line,
	// whatever it says: a third of the files carry another header wording (case, units), further columns behind the third
	// (an absolute level, a second date, a remark) and / or ';' as separator
	rs := NewRng(mix(mix(sc.Seed, uint64(sc.Index)), 7272))
	sep, head, extra := ",", "SID,DATE,Level", 0
	if rs.Bool(0.33) {
		if rs.Bool(0.4) {
			sep = ";"
		}
		extra = rs.Range(0, 3)
		head = pickS(rs, []string{"SID,DATE,Level", "sid,date,level", "SID,Date,Level [dm]", "Soil,Datum,GW_dm", "id,DATE,LEVEL"})
		head += []string{"", ",Level [m a.s.l.]", ",Level [m a.s.l.],Date (checked)", ",level,date,Remark"}[extra]
		head = strings.ReplaceAll(head, ",", sep)
	}
	row := func(id string, d Date, lvl float64) {
		fmt.Fprintf(&b, "%s%s%s%s%s", id, sep, sc.fmtIn(d), sep, fmtG(lvl))
		if extra >= 1 {
			fmt.Fprintf(&b, "%s%s", sep, fmtG(71.5-lvl/10))
		}
		if extra >= 2 {
			fmt.Fprintf(&b, "%s%s", sep, sc.fmtIn(d.AddDays(400)))
		}
		if extra >= 3 {
			fmt.Fprintf(&b, "%sgauge 7", sep)
		}
		b.WriteString("\n")
	}
	b.WriteString(head + "\n")
	id := sc.Soil.ID
	if sc.GWId != "" {
		id = sc.GWId // gwId=<id> on the batch line selects the series; the rows under the soil's own id are decoys
	}
	// the other soil of the file: in 60 % of the files its id shares characters with the simulated one (the simulated id is its
	// beginning or its end, or the other id is the beginning of the simulated one): only rows of exactly the simulated id count
	other := "998"
	if ro := NewRng(mix(mix(sc.Seed, uint64(sc.Index)), 7373)); ro.Bool(0.6) {
		other = pickS(ro, []string{id + "1", id + "0", id + "x", "9" + id, id[:len(id)-1]})
		if other == "" || other == sc.Soil.ID {
			other = id + "7"
		}
	}
	if sc.OtherField {
		row(other, sc.Start, 7.5)
	}
	for i, p := range sc.GWSeries {
		row(id, p.D, p.Level)
		if sc.GWId != "" && sc.GWId != sc.Soil.ID && i%3 != 1 { // (the drawn gwId may happen to be the soil's own id: then there is nothing to decoy)
			row(sc.Soil.ID, p.D.AddDays(i%2), p.Level+2.2)
		}
		if sc.OtherField && i%2 == 0 {
			// a file sorted by date holds the rows of several soils interleaved
			row(other, p.D, p.Level+3.3)
		}
	}
	return b.String()
}

func (sc *Scenario) automanFile() string {
	var b strings.Builder
	b.WriteString("crp Sow1 Sow2 har2 TSmin Smomin Smomax Hmomin Hmomax Rainav Rainact TACCU Tbase Irrdv1 Irrdv2 Ndem1 Ndem2 Ndem3 stage1 stage 2 stage 3 Twindow orgF  amount appdat Irrlow irrdep irrmax\n")
	for _, l := range sc.Automan {
		b.WriteString(l + "\n")
	}
	return b.String()
}

func outConfigYAML(cols []OutCol, st OutStyle) string {
	var b strings.Builder
	headLines := st.headLines()
	na := st.Na
	if na == "" {
		na = "n.a."
	}
	fmt.Fprintf(&b, "FillCharacter: '%s'\nSeperatorCharacter: '%s'\nNaValue: %s\nDataColumns:\n", st.fill(), st.sep(), na)
	for _, c := range cols {
		al := c.Align
		if al == "" {
			al = "right"
		}
		fmt.Fprintf(&b, "- Format: '%s'\n  DataAlignment: %s\n  Width: %d\n  VariableName: %s\n", c.Format, al, c.Width, c.Var)
		if c.I1 != 0 {
			fmt.Fprintf(&b, "  VarIndex1: %d\n", c.I1)
		}
		if c.I2 != 0 {
			fmt.Fprintf(&b, "  VarIndex2: %d\n", c.I2)
		}
		if c.Mod != 0 {
			fmt.Fprintf(&b, "  Modifier: %s\n", fmtG(c.Mod))
		}
	}
	if headLines > 0 {
		b.WriteString("Headlines:\n")
		for h := 1; h <= headLines; h++ {
			fmt.Fprintf(&b, "  %d:\n", h)
			for i, c := range cols {
				fmt.Fprintf(&b, "  - ColumnName: c%d_%s\n    StartColumn: %d\n    EndColumn: %d\n", i, strings.ReplaceAll(c.Var, ".", "_"), i+1, i+1)
			}
		}
	}
	return b.String()
}

const managementConfigYAML = `eventformats:
  tillage:
    eventname: tillage
    enabled: true
    additionalfields:
      Depth: '%dcm'
      Type: '%d'
  irrigation:
    eventname: irrigation
    enabled: true
    additionalfields:
      Amount: '%dmm'
      NO3: '%.6f'
  sowing:
    eventname: sowing
    enabled: true
    additionalfields:
      Crop: '%s'
  harvest:
    eventname: harvest
    enabled: true
    additionalfields:
      Crop: '%s'
      Residue: '%.6f'
  fertilization:
    eventname: fertilization
    enabled: true
    additionalfields:
      Fertilizer: '%s'
      Ndirect: '%.9f'
      NH4: '%.9f'
seperatorrune: 59
`

// ------------------------------- weather files -------------------------------------

func (sc *Scenario) noneStr() string { return fmtG(sc.Weather.NoneValue) }

func (sc *Scenario) globStr(d WeatherDay) string {
	if d.NoneGlob {
		return sc.noneStr()
	}
	return f2(d.Glob)
}

func (sc *Scenario) precipStr(d WeatherDay) string {
	if d.NonePrecip {
		return sc.noneStr()
	}
	return f1(d.Precip)
}

func f1(x float64) string { return strconv.FormatFloat(x, 'f', 1, 64) }
func f2(x float64) string { return strconv.FormatFloat(x, 'f', 2, 64) }

func (sc *Scenario) writeWeather(dir string) error {
	w := &sc.Weather
	switch w.Layout {
	case 0:
		// one file per year: MET_<code>.<ext>
		byYear := map[int][]WeatherDay{}
		var years []int
		for _, d := range w.Days {
			if _, ok := byYear[d.D.Y]; !ok {
				years = append(years, d.D.Y)
			}
			byYear[d.D.Y] = append(byYear[d.D.Y], d)
		}
		for _, y := range years {
			var b strings.Builder
			sc.weatherHeader(&b, "tavg;tmin;tmax;ET0;relhumid;vapp14;wind;sundu;globrad;precip;jday", "C_deg;C_deg;C_deg;mm;%;mm_Hg;m/s;hours;MJ m-2;mm;")
			for _, d := range byYear[y] {
				tavg := f1(d.Tavg)
				if d.NoneTavg {
					tavg = sc.noneStr()
				}
				sun := f1(d.Sun)
				if d.NoneSun || !w.HasSun {
					sun = sc.noneStr()
				}
				verd := f1(d.Verd)
				if d.NoneVerd || !w.HasVerd {
					verd = sc.noneStr()
				}
				et0 := f1(d.ET0)
				fmt.Fprintf(&b, "%s;%s;%s;%s;%s;%s;%s;%s;%s;%s;%d\n", tavg, f1(d.Tmin), f1(d.Tmax), et0, f1(d.RH), verd, f1(d.Wind), sun, sc.globStr(d), sc.precipStr(d), d.D.DOY())
			}
			name := "MET_" + w.Code + "." + yearExt(y)
			if err := os.WriteFile(filepath.Join(dir, name), []byte(b.String()), 0644); err != nil {
				return err
			}
		}
	case 1:
		var b strings.Builder
		// the multi-year CSV is header-driven: 40 % of the files have their columns in another order, up to two further
		// columns the model does not know (single-word names) anywhere, and / or one last column with a two-word name whose
		// first word repeats a known name ("wind gust", "tmax corrected": the header is also split at blanks, the data rows are
		// not, so such a column is only legal at the end, behind the real one)
		type wcol struct {
			name string
			val  func(d *WeatherDay) string
		}
		cols := []wcol{
			{"iso-date", func(d *WeatherDay) string { return d.D.String() }},
			{"tmin", func(d *WeatherDay) string { return f1(d.Tmin) }},
			{"tavg", func(d *WeatherDay) string {
				if d.NoneTavg {
					return sc.noneStr()
				}
				if w.ExactTavg {
					return fmtG(d.Tavg)
				}
				return f1(d.Tavg)
			}},
			{"tmax", func(d *WeatherDay) string { return f1(d.Tmax) }},
			{"precip", func(d *WeatherDay) string { return sc.precipStr(*d) }},
			{"globrad", func(d *WeatherDay) string { return sc.globStr(*d) }},
			{"wind", func(d *WeatherDay) string { return f1(d.Wind) }},
			{"relhumid", func(d *WeatherDay) string { return f1(d.RH) }},
		}
		if w.HasSun {
			cols = append(cols, wcol{"sunhours", func(d *WeatherDay) string {
				if d.NoneSun {
					return sc.noneStr()
				}
				return f1(d.Sun)
			}})
		}
		if w.HasVerd {
			cols = append(cols, wcol{"verd", func(d *WeatherDay) string {
				if d.NoneVerd {
					return sc.noneStr()
				}
				return f1(d.Verd)
			}})
		}
		if rw := NewRng(mix(mix(sc.Seed, uint64(sc.Index)), 8383)); rw.Bool(0.4) {
			if rw.Bool(0.7) {
				for k := len(cols) - 1; k > 0; k-- {
					o := rw.Intn(k + 1)
					cols[k], cols[o] = cols[o], cols[k]
				}
			}
			for k, n := 0, rw.Range(0, 2); k < n; k++ {
				name := pickS(rw, []string{"snow", "cloud", "station", "dewpoint", "Wind10", "TMAXraw"})
				off := rw.Uniform(5, 60)
				at := rw.Intn(len(cols) + 1)
				cols = append(cols, wcol{})
				copy(cols[at+1:], cols[at:])
				cols[at] = wcol{name, func(d *WeatherDay) string { return f1(d.Tmax + off) }}
			}
			if rw.Bool(0.4) {
				// ... or a name that is the other layout's spelling of a known quantity (RAD = a station's net radiation next to globrad)
				name := pickS(rw, []string{"wind gust", "tmax corrected", "precip raw", "globrad clear", "tmin grass", "RAD", "WIND", "RH", "PREC", "TMAX", "TMIN"})
				cols = append(cols, wcol{name, func(d *WeatherDay) string { return f1(d.Wind + 37.5) }})
			}
		}
		var names, units []string
		for _, c := range cols {
			names = append(names, c.name)
			units = append(units, "-")
		}
		sc.weatherHeader(&b, strings.Join(names, ","), strings.Join(units, ","))
		for di := range w.Days {
			d := &w.Days[di]
			for ci, c := range cols {
				if ci > 0 {
					b.WriteString(",")
				}
				b.WriteString(c.val(d))
			}
			b.WriteString("\n")
		}
		return os.WriteFile(filepath.Join(dir, w.Code+".csv"), []byte(b.String()), 0644)
	default:
		var b strings.Builder
		hdr := "@YYYYJJJ   TMIN    TMAX     RAD    PREC    WIND      RH"
		if w.HasSun {
			hdr += "    SUNH"
		}
		if w.HasVerd {
			hdr += "    VERD"
		}
		if w.CO2InFile > 0 {
			hdr += "  CO2"
		}
		b.WriteString(hdr + "\n")
		for i := 1; i < w.NumHeader; i++ {
			b.WriteString("# header line\n")
		}
		for _, d := range w.Days {
			fmt.Fprintf(&b, " %04d%03d %7s %7s %7s %7s %7s %7s", d.D.Y, d.D.DOY(), f1(d.Tmin), f1(d.Tmax), sc.globStr(d), sc.precipStr(d), f1(d.Wind), f1(d.RH))
			if w.HasSun {
				if d.NoneSun {
					fmt.Fprintf(&b, " %7s", sc.noneStr())
				} else {
					fmt.Fprintf(&b, " %7s", f1(d.Sun))
				}
			}
			if w.HasVerd {
				if d.NoneVerd {
					fmt.Fprintf(&b, " %7s", sc.noneStr())
				} else {
					fmt.Fprintf(&b, " %7s", f1(d.Verd))
				}
			}
			if w.CO2InFile > 0 {
				fmt.Fprintf(&b, "  %s", fmtG(w.CO2InFile))
			}
			b.WriteString("\n")
		}
		return os.WriteFile(filepath.Join(dir, w.Code+".w6d"), []byte(b.String()), 0644)
	}
	return nil
}

func (sc *Scenario) weatherHeader(b *strings.Builder, names, units string) {
	w := &sc.Weather
	b.WriteString(names + "\n")
	if w.NumHeader == 3 {
		b.WriteString(units + "\n")
		co2 := "-----"
		if w.CO2InHeader > 0 {
			co2 = fmtG(w.CO2InHeader)
		}
		fmt.Fprintf(b, "%s;%s;%s\n", fmtG(w.Altitude), fmtG(w.WindHeight), co2)
	} else {
		for i := 1; i < w.NumHeader; i++ {
			b.WriteString(units + "\n")
		}
	}
}

func yearExt(y int) string {
	j := y - 1900
	s := strconv.Itoa(j)
	if j >= 100 {
		return "0" + s[1:3]
	}
	return "9" + s
}
