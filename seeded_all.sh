#!/bin/bash
# ./seeded_all.sh <tier> <seed> [name-prefix] [parallel]: evaluates every seeded change with the check of its property; one line per change
cd "$(dirname "$0")"
TIER="${1:-quick}"; SEED="${2:-20260929}"; PRE="${3:-}"; PAR="${4:-3}"
one() {
  n="$1"
  out=$(VERIF_SEED=$SEED VERIF_WORKERS=6 ./seeded_eval.sh $n $TIER 2>&1)
  if echo "$out" | grep -q "^VIOLATION"; then v=CAUGHT; else v=MISSED; fi
  echo "$v seed=$SEED $n $(echo "$out" | grep -c '^VIOLATION') violation line(s) $(echo "$out" | grep -E '^(INCONCLUSIVE|patch does not|cannot)' | head -1 | cut -c1-120)"
}
export -f one; export TIER SEED
ls -d seeded/${PRE}*/ | xargs -n1 basename | xargs -P "$PAR" -I{} bash -c 'one {}'
