package main

import (
	"fmt"
	"math"
	"os"
	"path/filepath"
	"strconv"
	"strings"

	"github.com/zalf-rpm/Hermes2Go/hermes"
)

// =====================================================================================
// C18: command-line crop parameter override  ==  the same edit in the crop parameter file
// =====================================================================================

type cropOvr struct {
	Key   string
	Value float64
	Valid bool
	Why   string
	apply func(cp *hermes.CropParam)
}

func clip(x, lo, hi float64) float64 {
	if x < lo {
		return lo
	}
	if x > hi {
		return hi
	}
	return x
}

func roundSig(x float64) float64 {
	v, _ := strconv.ParseFloat(strconv.FormatFloat(x, 'g', 6, 64), 64)
	return v
}

var c18BaseParams = []string{"MAXAMAX", "MINTMP", "WUMAXPF", "VELOC", "YIFAK", "INITCONCNBIOM", "INITCONCNROOT"}
var c18StageParams = []string{"TSUM", "BAS", "VSCHWELL", "DAYL", "DLBAS", "DRYSWELL", "LUKRIT", "LAIFKT", "WGMAX", "KC"}
var c18PartParams = []string{"PRO", "DEAD"}

// genOvr draws one override (valid or deliberately out of range) for the given parameter file content.
func genOvr(r *Rng, cp *hermes.CropParam, kind int, name string, invalid bool, earlyStages bool) *cropOvr {
	o := &cropOvr{Valid: !invalid}
	nst, nko := cp.NRENTW, cp.NRKOM
	switch kind {
	case 0:
		o.Key = "c_" + name
		var v float64
		switch name {
		case "MAXAMAX":
			v = clip(cp.MAXAMAX*r.Uniform(0.7, 1.3), 1, 100)
			if invalid {
				v = pickFloat(r, []float64{0, -5, 100.5, 250})
			}
			o.apply = func(c *hermes.CropParam) { c.MAXAMAX = o.Value }
		case "MINTMP":
			v = clip(cp.MINTMP+r.Uniform(-3, 3), -20, 40)
			if invalid {
				v = pickFloat(r, []float64{-30, -45, 50, 80})
			}
			o.apply = func(c *hermes.CropParam) { c.MINTMP = o.Value }
		case "WUMAXPF":
			v = clip(cp.WUMAXPF+r.Uniform(-3, 3), 1, 20)
			if invalid {
				v = pickFloat(r, []float64{0, -1, 20.5, 30})
			}
			o.apply = func(c *hermes.CropParam) { c.WUMAXPF = o.Value }
		case "VELOC":
			v = clip(cp.VELOC*r.Uniform(0.6, 1.4), 0.01, 1)
			if invalid {
				v = pickFloat(r, []float64{0, -0.5, 1.01, 7})
			}
			o.apply = func(c *hermes.CropParam) { c.VELOC = o.Value }
		case "YIFAK":
			v = r.Uniform(0.3, 1)
			if invalid {
				v = pickFloat(r, []float64{-0.1, 1.01, 4.8})
			}
			o.apply = func(c *hermes.CropParam) { c.YIFAK = o.Value }
		case "INITCONCNBIOM":
			v = clip(cp.INITCONCNBIOM*r.Uniform(0.7, 1.3), 0, 100)
			if invalid {
				v = pickFloat(r, []float64{-1, 100.5})
			}
			o.apply = func(c *hermes.CropParam) { c.INITCONCNBIOM = o.Value }
		default:
			v = clip(cp.INITCONCNROOT*r.Uniform(0.7, 1.3), 0, 100)
			if invalid {
				v = pickFloat(r, []float64{-1, 100.5})
			}
			o.apply = func(c *hermes.CropParam) { c.INITCONCNROOT = o.Value }
		}
		o.Value = roundSig(v)
	case 1:
		st := r.Range(1, nst)
		if earlyStages && r.Bool(0.6) {
			st = r.Range(1, 2) // a re-sown permanent crop is re-initialised from the first two stages
		}
		badStage := invalid && nst < 9 && r.Bool(0.4)
		if badStage {
			st = r.Range(nst+1, 9)
		}
		o.Key = fmt.Sprintf("c_%s_%d", name, st)
		var orig float64
		if st <= nst {
			s := cp.CropDevelopmentStages[st-1]
			orig = map[string]float64{"TSUM": s.TSUM, "BAS": s.BAS, "VSCHWELL": s.VSCHWELL, "DAYL": s.DAYL, "DLBAS": s.DLBAS, "DRYSWELL": s.DRYSWELL, "LUKRIT": s.LUKRIT, "LAIFKT": s.LAIFKT, "WGMAX": s.WGMAX, "KC": s.Kc}[name]
		}
		var v float64
		bad := invalid && !badStage
		switch name {
		case "TSUM":
			v = clip(orig*r.Uniform(0.7, 1.3), 1, 10000)
			if bad {
				v = pickFloat(r, []float64{-1, -100, 10001})
			}
		case "BAS":
			v = clip(orig+r.Uniform(-2, 2), -10, 40)
			if bad {
				v = pickFloat(r, []float64{-10.5, 41, 99})
			}
		case "VSCHWELL":
			v = clip(orig+r.Uniform(0, 8), 0, 100)
			if bad {
				v = pickFloat(r, []float64{-1, 101})
			}
		case "DAYL", "DLBAS":
			v = clip(orig+r.Uniform(-1, 1), -24, 24)
			if bad {
				v = pickFloat(r, []float64{-25, 24.5})
			}
		case "DRYSWELL":
			v = r.Uniform(0.3, 0.9)
			if bad {
				v = pickFloat(r, []float64{-0.1, 1.5})
			}
		case "LUKRIT":
			v = r.Uniform(0, 0.1)
			if bad {
				v = pickFloat(r, []float64{-0.01, 1.2})
			}
		case "LAIFKT":
			v = clip(orig*r.Uniform(0.7, 1.3), 0, 100)
			if bad {
				v = pickFloat(r, []float64{-0.001, 101})
			}
		case "WGMAX":
			v = clip(orig*r.Uniform(0.7, 1.3), 0, 100)
			if bad {
				v = pickFloat(r, []float64{-0.001, 100.1})
			}
		default: // KC
			v = r.Uniform(0.4, 1.3)
			if bad {
				v = pickFloat(r, []float64{0, -0.5})
			}
		}
		o.Value = roundSig(v)
		idx := st - 1
		o.apply = func(c *hermes.CropParam) {
			if idx >= len(c.CropDevelopmentStages) {
				return
			}
			s := &c.CropDevelopmentStages[idx]
			switch name {
			case "TSUM":
				s.TSUM = o.Value
			case "BAS":
				s.BAS = o.Value
			case "VSCHWELL":
				s.VSCHWELL = o.Value
			case "DAYL":
				s.DAYL = o.Value
			case "DLBAS":
				s.DLBAS = o.Value
			case "DRYSWELL":
				s.DRYSWELL = o.Value
			case "LUKRIT":
				s.LUKRIT = o.Value
			case "LAIFKT":
				s.LAIFKT = o.Value
			case "WGMAX":
				s.WGMAX = o.Value
			case "KC":
				s.Kc = o.Value
			}
		}
	default:
		st, pa := r.Range(1, nst), r.Range(1, nko)
		badIdx := false
		if invalid && r.Bool(0.5) {
			if nko < 5 && r.Bool(0.5) {
				pa = r.Range(nko+1, 5)
				badIdx = true
			} else if nst < 9 {
				st = r.Range(nst+1, 9)
				badIdx = true
			}
		}
		o.Key = fmt.Sprintf("c_%s_%d_%d", name, st, pa)
		v := float64(r.Range(0, 100)) / 100
		if name == "DEAD" {
			v = float64(r.Range(0, 100)) / 1000
		}
		if invalid && !badIdx {
			v = pickFloat(r, []float64{-0.1, 1.01, 3})
		}
		o.Value = v
		si, pi := st-1, pa-1
		o.apply = func(c *hermes.CropParam) {
			if si >= len(c.CropDevelopmentStages) {
				return
			}
			s := &c.CropDevelopmentStages[si]
			if name == "PRO" && pi < len(s.PRO) {
				s.PRO[pi] = o.Value
			}
			if name == "DEAD" && pi < len(s.DEAD) {
				s.DEAD[pi] = o.Value
			}
		}
	}
	return o
}

var c18StageMemo = map[string]int{}

// c18Stages: number of development stages of a shipped crop parameter file (0 if it cannot be read)
func c18Stages(file string) int {
	if n, ok := c18StageMemo[file]; ok {
		return n
	}
	n := 0
	if cp, err := hermes.ReadCropParamFromFile(filepath.Join(paramDir, file)); err == nil {
		n = cp.NRENTW
	}
	c18StageMemo[file] = n
	return n
}

func runC18Case(tier string, seed uint64, idx int, keepDir string) *CaseResult {
	res := &CaseResult{Prop: "C18", Seed: seed, Index: idx, Status: "ok", Cov: map[string]int64{}}
	r := NewRng(mix(mix(seed, uint64(idx)), 1818))
	cf := c13CropFiles[idx%len(c13CropFiles)] // every shipped crop parameter file in turn (varieties and permanent crops included)
	p := defaultProfile()
	p.Inject, p.Measurement = 0, 0
	p.Years = [2]int{3, 3}
	history := NewRng(mix(mix(seed, uint64(idx)), 1819)).Bool(0.35)
	if history {
		p.Years = [2]int{5, 6}
	}
	p.ColdClimate = 0.1
	p.PTFProb, p.ExplicitProb = 0.05, 0.1
	sc := genWithProfile("C18", seed, idx, r, p)
	sc.CropParamYml = true
	sc.ResultFormat = 1
	sc.DailyCols = pairDailyCols(sc.Soil.N())
	sc.Latitude = float64(r.Range(350, 600)) / 10 // a climate in which the crops develop
	// target: the rotation entry of that file, sown inside the period (second attempt: directly after the initial crop)
	target := -1
	// 35 %: a longer run in which one or two other crops are grown before the crop of the overridden file - preferably crops
	// with more development stages or organs than it has (state of an earlier crop must not leak into what the override derives)
	nst0 := c18Stages(cropParamFileName(cf[0], cf[1], true))
	for attempt := 0; attempt < 2 && target < 0; attempt++ {
		if history && attempt == 0 {
			c13RotationEx(sc, r, cf[0], cf[1], r.Range(1, 2), func(ci *CropInfo) bool {
				return c18Stages(cropParamFileName(ci.Code, "", true)) > nst0
			})
		} else {
			c13Rotation(sc, r, cf[0], cf[1], []float64{0.15, 0}[attempt])
		}
		for i := 1; i < len(sc.Rotation); i++ {
			if sc.Rotation[i].Crop == cf[0] && sc.Rotation[i].Variety == cf[1] && sc.Rotation[i].Sow.Zeit() < sc.End.Zeit()-60 {
				target = i
				break
			}
		}
	}
	if target < 0 {
		res.Status = "skipped"
		res.Err = "no crop sown inside the period"
		return res
	}
	// a permanent crop as first sown crop: in 40 % of these cases the crop standing before the start (the first rotation
	// line, never sown in the run) is the same permanent crop - "continues a stand" and "first crop of the run" meet
	permInit := false
	if rpp := NewRng(mix(mix(seed, uint64(idx)), 1820)); c13Permanent[cf[0]] && target == 1 && rpp.Bool(0.4) {
		sc.Rotation[0].Crop, sc.Rotation[0].Variety = cf[0], ""
		permInit = true
		res.Cov["pairs_permanent_crop_after_itself_as_initial_crop"]++
	}
	// a permanent crop followed by itself under another cultivar name: from its second cut on the stand is entered with a
	// cultivar whose parameter file the project supplies (a copy of the shipped file under the cultivar's name); the override
	// and the file edit then address that second file (15 % of the cases with a permanent crop grown as consecutive cuts)
	cultivar := false
	if rcv := NewRng(mix(mix(seed, uint64(idx)), 1821)); c13Permanent[cf[0]] && target+1 < len(sc.Rotation) && sc.Rotation[target+1].Crop == cf[0] && rcv.Bool(0.3) {
		for i := target + 1; i < len(sc.Rotation) && sc.Rotation[i].Crop == cf[0]; i++ {
			sc.Rotation[i].Variety = "vx"
		}
		target++
		cultivar = true
		res.Cov["pairs_permanent_crop_continued_under_another_cultivar_file"]++
	}
	te := sc.Rotation[target]
	fileName := cropParamFileName(te.Crop, te.Variety, true)
	srcName := fileName
	if cultivar {
		srcName = cropParamFileName(te.Crop, "", true)
	}
	cp, err := hermes.ReadCropParamFromFile(filepath.Join(paramDir, srcName))
	if err != nil {
		res.Status = "skipped"
		res.Err = err.Error()
		return res
	}
	// overrides
	reject := r.Bool(0.3)
	nOv := r.Range(1, 3)
	if tier == "thorough" && r.Bool(0.3) {
		nOv = r.Range(3, 6)
	}
	var ovs []*cropOvr
	used := map[string]bool{}
	badAt := -1
	if reject {
		badAt = r.Intn(nOv)
	}
	// every parameter kind in turn (so that quick covers each kind several times)
	kinds := []struct {
		kind int
		name string
	}{}
	for _, n := range c18BaseParams {
		kinds = append(kinds, struct {
			kind int
			name string
		}{0, n})
	}
	for _, n := range c18StageParams {
		kinds = append(kinds, struct {
			kind int
			name string
		}{1, n})
	}
	for _, n := range c18PartParams {
		kinds = append(kinds, struct {
			kind int
			name string
		}{2, n})
	}
	for k := 0; k < nOv; k++ {
		kd := kinds[(idx/len(c13CropFiles)+idx+k*7)%len(kinds)]
		if k > 0 {
			kd = kinds[r.Intn(len(kinds))]
		}
		if (permInit || cultivar) && k == 0 && r.Bool(0.7) {
			kd = kinds[5+r.Intn(2)] // the initial N concentrations: only used when a crop does not continue a stand
		}
		if history && k == 0 && r.Bool(0.5) {
			kd = kinds[len(c18BaseParams)] // TSUM: the parameter other quantities are derived from when the file is read
		}
		if bool(cp.DAUERKULT) && k == 0 && r.Bool(0.4) {
			kd = kinds[len(c18BaseParams)] // TSUM
		}
		o := genOvr(r, &cp, kd.kind, kd.name, k == badAt, bool(cp.DAUERKULT))
		if used[o.Key] {
			continue
		}
		used[o.Key] = true
		ovs = append(ovs, o)
	}
	reject = false
	for _, o := range ovs {
		if !o.Valid {
			reject = true
			// a quarter of the invalid values are "not a number" / infinite (what a calibration script prints for a failed
			// computation): outside every valid range
			if rn := NewRng(mix(mix(seed, uint64(idx)), hashStr(o.Key))); rn.Bool(0.25) {
				o.Value = []float64{math.NaN(), math.Inf(1), math.Inf(-1)}[rn.Intn(3)]
				res.Cov["rejection_pairs_with_nan_or_infinite_value"]++
			}
		}
	}
	root := keepDir
	if root == "" {
		root, err = os.MkdirTemp(scratchBase, "c18")
		if err != nil {
			res.Status = "skipped"
			return res
		}
		defer os.RemoveAll(root)
	}
	// two parameter folders below a shared tree: param0 (file rewritten unedited), param1 (file rewritten with the edits)
	mkFolder := func(runRoot, name string, edit bool) error {
		dir := filepath.Join(runRoot, name)
		if err := linkParamFolder(dir, map[string]bool{fileName: true}); err != nil {
			return err
		}
		c2, _ := hermes.ReadCropParamFromFile(filepath.Join(paramDir, srcName))
		if edit {
			for _, o := range ovs {
				o.apply(&c2)
			}
		}
		return hermes.WriteCropParam(filepath.Join(dir, fileName), c2)
	}
	var lineArgs []string
	lineArgs = append(lineArgs, "CropFile="+fileName)
	for _, o := range ovs {
		lineArgs = append(lineArgs, o.Key+"="+fmtG(o.Value))
	}
	// third mode (12 % of the non-rejection cases): the override names a shipped crop file that no crop of the run reads;
	// editing a file that is never read changes nothing, so the run must equal the run without overrides. Mostly with the
	// classic parameter format, where file names carry no extension (PARAM.WR is then a prefix of PARAM.WRA / PARAM.WRC).
	unused := ""
	if !reject && r.Bool(0.12) && !cultivar { // (the project-supplied cultivar file exists as YAML only)
		classic := r.Bool(0.7)
		usedFiles := map[string]bool{}
		for _, e := range sc.Rotation {
			usedFiles[cropParamFileName(e.Crop, e.Variety, !classic)] = true
		}
		var cands, pref []string
		for _, c := range c13CropFiles {
			n := cropParamFileName(c[0], c[1], !classic)
			if usedFiles[n] {
				continue
			}
			cands = append(cands, n)
			for u := range usedFiles {
				if strings.HasPrefix(u, n) || strings.HasPrefix(n, u) {
					pref = append(pref, n) // a name that begins like (or extends) the name of a file the run does read
				}
			}
		}
		if len(pref) > 0 && r.Bool(0.8) {
			unused = pref[r.Intn(len(pref))]
		} else if len(cands) > 0 {
			unused = cands[r.Intn(len(cands))]
		}
		if unused != "" {
			sc.CropParamYml = !classic
			lineArgs = []string{"CropFile=" + unused, "c_MAXAMAX=" + fmtG(roundSig(r.Uniform(20, 60))), "c_YIFAK=" + fmtG(roundSig(r.Uniform(0.3, 0.9)))}
		}
	}
	// A: override on the batch line
	runA := runPlain(cloneScenario(sc), filepath.Join(root, "A"), func(rr string) []string {
		mkFolder(rr, "param0", false)
		return append([]string{"parameter=param0"}, lineArgs...)
	})
	// C: baseline, no override
	runC := runPlain(cloneScenario(sc), filepath.Join(root, "C"), func(rr string) []string {
		mkFolder(rr, "param0", false)
		return []string{"parameter=param0"}
	})
	desc := fmt.Sprintf("%s %v (crop %s, stages %d, organs %d)", fileName, lineArgs[1:], te.Crop, cp.NRENTW, cp.NRKOM)
	res.Days = runA.Days
	if runC.Status != "ok" {
		res.Status = "skipped"
		res.Err = "baseline run failed: " + runC.Err
		return res
	}
	violate := func(sig, msg string) {
		res.Violations = append(res.Violations, Violation{Prop: "C18", Sig: sig, Msg: msg})
	}
	if unused != "" {
		if ok, why := compareRuns(runA, runC, nil); !ok {
			violate("override_for_unread_crop_file_changes_run", fmt.Sprintf("the override names %s, which no crop of the run reads (rotation files: the run uses %s), but the run differs from the run without overrides: %s", unused, fileName, why))
		}
		res.Cov["pairs_override_for_unread_crop_file"]++
		for u := range map[string]bool{fileName: true} {
			if strings.HasPrefix(u, strings.TrimSuffix(unused, ".yml")) {
				res.Cov["pairs_unread_file_name_is_prefix_of_a_read_one"]++
			}
		}
		res.NonTrivial = runA.Days > 30
	} else if reject {
		if ok, why := compareRuns(runA, runC, nil); !ok {
			violate("rejected_override_changes_run", fmt.Sprintf("out-of-range override %s must be rejected as a whole, but the run differs from the run without overrides: %s", desc, why))
		}
		res.Cov["rejection_pairs"]++
		rejected := false
		for _, l := range runA.Logs {
			if strings.Contains(l, "Error in crop overwrite parameters") {
				rejected = true
			}
		}
		if rejected {
			res.Cov["rejections_reported"]++
		}
		res.NonTrivial = runA.Days > 30
	} else {
		runB := runPlain(cloneScenario(sc), filepath.Join(root, "B"), func(rr string) []string {
			mkFolder(rr, "param1", true)
			return []string{"parameter=param1"}
		})
		if ok, why := compareRuns(runA, runB, nil); !ok {
			sig := "override_differs_from_file_edit"
			for _, o := range ovs {
				if strings.HasPrefix(o.Key, "c_TSUM_") && len(ovs) == 1 {
					sig = "override_differs_from_file_edit:TSUM"
				}
			}
			violate(sig, fmt.Sprintf("override %s: %s", desc, why))
		}
		res.Cov["equivalence_pairs"]++
		for _, o := range ovs {
			parts := strings.Split(o.Key, "_")
			res.Cov["param_"+parts[1]]++
		}
		if !sameFiles(runA, runC) {
			res.NonTrivial = true
			res.Cov["pairs_where_override_changes_results"]++
		}
	}
	res.Cov["crop_"+te.Crop]++
	if target > 1 {
		res.Cov["pairs_with_other_crops_grown_before_the_overridden_one"]++
		if c18Stages(cropParamFileName(sc.Rotation[target-1].Crop, sc.Rotation[target-1].Variety, true)) > cp.NRENTW {
			res.Cov["pairs_preceded_by_a_crop_with_more_stages"]++
		}
	}
	res.Sample = map[string]interface{}{"crop_file": fileName, "batch_line_override": lineArgs, "rejection_case": reject, "start": sc.Start.String(), "end": sc.End.String(), "sown": te.Sow.String()}
	return res
}

func init() {
	caseRunners["C18"] = runC18Case
	floors := []string{"equivalence_pairs", "rejection_pairs", "pairs_where_override_changes_results", "pairs_override_for_unread_crop_file", "pairs_with_other_crops_grown_before_the_overridden_one", "pairs_preceded_by_a_crop_with_more_stages"}
	for _, n := range append(append(append([]string{}, c18BaseParams...), c18StageParams...), c18PartParams...) {
		floors = append(floors, "param_"+n)
	}
	otherChecks["C18"] = func(tier string, seed uint64) int {
		spec := checkSpec{Prop: "C18", Level: "exploration", NQuick: 840, NThorough: 16800,
			Rule:   "case i uses shipped parameter file i mod 28 (every shipped file: annual main crops, varieties, catch crops and the permanent crops grown as consecutive cuts) and 1-3 (thorough: up to 6) overrides cycling through every overridable base / per-stage / per-organ parameter with values inside the valid range; run A = override on the batch line, run B = no override on a parameter folder whose file carries the same edit, all result files byte-identical (12 significant digits of crop, water, N and temperature state per day); 30% of the cases carry one out-of-range value or index and must equal the run without overrides; evaluations = cases (2-3 full runs each), non-trivial = pairs in which the override actually changes the results relative to the baseline (rejection cases: run > 30 days)",
			Floors: floors}
		return runSimCheck(spec, tier, seed)
	}
}
