package hermes

// Demonstration for property C19 (soil temperature stays within the envelope of
// its boundary temperatures).
//
// A soil profile whose MEASURED bulk density (CSV soil file, column
// "BulkDensity") is below 0.5667 g/cm^3 - the normal range of peat / organic
// horizons, whose textures HN, HH1..HH4 are shipped in parameter/HYPAR.TRU -
// gets a NEGATIVE heat conductivity in Soiltemp():
//     HEATCOND = ((3*BD - 1.7) * 0.001) / (...) * ...
// The explicit scheme then integrates an anti-diffusion equation: the layer
// temperatures oscillate from the first day on, leave the envelope of the
// boundary temperatures and overflow to +-Inf within months.

import (
	"bufio"
	"fmt"
	"io"
	"math"
	"os"
	"path/filepath"
	"strconv"
	"strings"
	"testing"
)

func c19CopyFile(t *testing.T, src, dst string) {
	t.Helper()
	if err := os.MkdirAll(filepath.Dir(dst), 0o755); err != nil {
		t.Fatal(err)
	}
	in, err := os.Open(src)
	if err != nil {
		t.Fatal(err)
	}
	defer in.Close()
	out, err := os.Create(dst)
	if err != nil {
		t.Fatal(err)
	}
	defer out.Close()
	if _, err := io.Copy(out, in); err != nil {
		t.Fatal(err)
	}
}

func c19CopyDir(t *testing.T, src, dst string) {
	t.Helper()
	entries, err := os.ReadDir(src)
	if err != nil {
		t.Fatal(err)
	}
	for _, e := range entries {
		if e.IsDir() {
			c19CopyDir(t, filepath.Join(src, e.Name()), filepath.Join(dst, e.Name()))
		} else {
			c19CopyFile(t, filepath.Join(src, e.Name()), filepath.Join(dst, e.Name()))
		}
	}
}

const c19SoilHeader = "SID,C_org,Texture,LayerDepth,BulkDensityClass,BulkDensity,Stone,C/N,C/S,RootDepth,NumberHorizon,FieldCapacity,WiltingPoint,PoreVolume,Sand,Silt,Clay,DrainageDepth,Drainage%,GroundWaterLevel\n"

// c19RunProject runs the shipped example project "bulk" (examples/project/bulk,
// unchanged except for the soil file and the list of daily output columns) and
// returns per day: TD[0..n] (surface, layers 1..n-1, lower boundary).
func c19RunProject(t *testing.T, soilCSV string, n int) (dates []string, rows [][]float64) {
	t.Helper()
	root := t.TempDir()
	ex, err := filepath.Abs(filepath.Join("..", "examples"))
	if err != nil {
		t.Fatal(err)
	}
	prj := filepath.Join(root, "project", "bulk")
	c19CopyDir(t, filepath.Join(ex, "project", "bulk"), prj)
	c19CopyDir(t, filepath.Join(ex, "parameter"), filepath.Join(root, "parameter"))
	c19CopyFile(t, filepath.Join(ex, "weather", "historical", "109_120.csv"), filepath.Join(root, "weather", "historical", "109_120.csv"))
	if err := os.WriteFile(filepath.Join(prj, "soil_bulk.csv"), []byte(soilCSV), 0o644); err != nil {
		t.Fatal(err)
	}
	// daily output: date + soil temperatures of all nodes
	var sb strings.Builder
	sb.WriteString("FillCharacter: ' '\nSeperatorCharacter: ','\nNaValue: n.a.\nDataColumns:\n- Format: '%s'\n  VariableName: AKTUELL\n")
	for i := 0; i <= n; i++ {
		sb.WriteString(fmt.Sprintf("- Format: '%%g'\n  VariableName: TD\n  VarIndex1: %d\n", i))
	}
	if err := os.WriteFile(filepath.Join(prj, "dailyout_conf.yml"), []byte(sb.String()), 0o644); err != nil {
		t.Fatal(err)
	}

	res := filepath.Join(root, "RESULT")
	// the batch line of examples/bd_muencheberg_batch.txt (absolute result folder)
	args := []string{"project=bulk", "WeatherFolder=historical", "soilId=002", "fcode=109_120", "plotNr=10001",
		"Altitude=73", "Latitude=52.6732", "poligonID=29872", "resultfolder=" + res}
	session := NewHermesSession()
	out := make(chan *RunReturn, 1)
	session.Run(root, args, "c19", out, nil)
	r := <-out
	session.Close()
	if !r.Success {
		t.Fatalf("the run did not succeed (the input is meant to be valid): %v", r.Err)
	}
	files, _ := filepath.Glob(filepath.Join(res, "V*"))
	if len(files) != 1 {
		t.Fatalf("expected one daily output file, got %v", files)
	}
	f, err := os.Open(files[0])
	if err != nil {
		t.Fatal(err)
	}
	defer f.Close()
	sc := bufio.NewScanner(f)
	for sc.Scan() {
		tok := strings.Split(sc.Text(), ",")
		if len(tok) != n+2 {
			continue
		}
		row := make([]float64, 0, n+1)
		ok := true
		for _, s := range tok[1:] {
			v, err := strconv.ParseFloat(strings.TrimSpace(s), 64)
			if err != nil {
				ok = false
				break
			}
			row = append(row, v)
		}
		if ok {
			dates = append(dates, strings.TrimSpace(tok[0]))
			rows = append(rows, row)
		}
	}
	if len(rows) < 365 {
		t.Fatalf("only %d daily records parsed", len(rows))
	}
	return dates, rows
}

// c19CheckEnvelope: every layer temperature must be finite and lie between the
// lowest and highest temperature ever imposed at the surface (TD[0]) and the
// constant lower boundary (annual mean temperature TBASE; the initial profile
// is a straight line between the two).
func c19CheckEnvelope(t *testing.T, dates []string, rows [][]float64, n int, tbase float64) (violations int) {
	t.Helper()
	lo, hi := tbase, tbase
	const tol = 1e-6
	firstNonFinite := -1
	for d, r := range rows {
		lo = math.Min(lo, r[0])
		hi = math.Max(hi, r[0])
		for i := 1; i <= n; i++ {
			v := r[i]
			bad := math.IsNaN(v) || math.IsInf(v, 0) || v < lo-tol || v > hi+tol
			if !bad {
				continue
			}
			violations++
			if violations <= 3 {
				t.Errorf("day %d (%s): TD[%d] = %g is outside the envelope [%g, %g] of the temperatures imposed so far; profile TD[0..5] = %v",
					d+1, dates[d], i, v, lo, hi, r[:6])
			}
			if firstNonFinite < 0 && (math.IsNaN(v) || math.IsInf(v, 0)) {
				firstNonFinite = d
				t.Errorf("day %d (%s): first non-finite soil temperature TD[%d] = %g", d+1, dates[d], i, v)
			}
		}
	}
	t.Logf("%d days, envelope of imposed temperatures [%g, %g], %d layer-days outside", len(rows), lo, hi, violations)
	return violations
}

// Full run of the shipped example project "bulk" on a fen-peat profile with
// measured bulk density (0.35 / 0.30 g/cm^3) and measured capacity values.
func TestC19SoilTempEnvelopeMeasuredPeatBulkDensity(t *testing.T) {
	// two horizons (0-3 dm, 3-20 dm), texture HN (fen peat, listed in HYPAR.TRU and PARCAP.TRU),
	// 30 % Corg, bulk density class 1 and measured bulk density 0.35 / 0.30 g/cm^3,
	// measured field capacity 65, wilting point 25, pore volume 80 Vol.% (1 - 0.30/1.5 = 0.80), no groundwater (99)
	soil := c19SoilHeader +
		"002,30.0,HN ,03,1,0.35,00,15,00,05,02,65,25,80,10,60,30,20,00,99\n" +
		"002,30.0,HN ,20,1,0.30,00,15,00,,,65,25,80,10,60,30,20,00,   \n"
	dates, rows := c19RunProject(t, soil, 20)
	c19CheckEnvelope(t, dates, rows, 20, 8.7) // AnnualAverageTemperature of examples/project/bulk/config.yml
}

// Control: the same project with the shipped soil (measured bulk density 1.36 / 1.4) keeps the envelope;
// and the same peat profile WITHOUT the measured value (class 1 -> 1.1 g/cm^3) keeps it as well.
func TestC19SoilTempEnvelopeControls(t *testing.T) {
	ex, _ := filepath.Abs(filepath.Join("..", "examples"))
	shipped, err := os.ReadFile(filepath.Join(ex, "project", "bulk", "soil_bulk.csv"))
	if err != nil {
		t.Fatal(err)
	}
	dates, rows := c19RunProject(t, string(shipped), 20)
	c19CheckEnvelope(t, dates, rows, 20, 8.7)

	soil := c19SoilHeader +
		"002,30.0,HN ,03,1,,00,15,00,05,02,65,25,80,10,60,30,20,00,99\n" +
		"002,30.0,HN ,20,1,,00,15,00,,,65,25,80,10,60,30,20,00,   \n"
	dates, rows = c19RunProject(t, soil, 20)
	c19CheckEnvelope(t, dates, rows, 20, 8.7)
}

// Kernel call on a generated state: a linear profile between a 15 degC surface and a 9 degC lower boundary,
// constant weather (Tmin = Tmax = 15 degC, no radiation), uniform bulk density and water content.
// After ONE call of Soiltemp every node must still be within [9, 15]; the heat conductivity must not be negative.
func TestC19SoilTempKernelLowBulkDensity(t *testing.T) {
	for _, c := range []struct{ bd, wg, humus float64 }{
		{0.30, 0.25, 0.5}, // peat at wilting point
		{0.30, 0.65, 0.5}, // peat at field capacity
		{0.30, 0.80, 0.5}, // peat, saturated
		{0.50, 0.40, 0.2}, // organic-rich loose topsoil
		{0.56, 0.30, 0.1},
	} {
		g := NewGlobalVarsMain()
		g.N = 20
		g.TBASE = 9
		g.TAG.SetByIndex(0)
		g.TMIN[0], g.TMAX[0], g.TEMP[0], g.RAD[0] = 15, 15, 15, 0
		for i := 0; i < g.N; i++ {
			g.BD[i], g.WG[0][i], g.HUMUS[i] = c.bd, c.wg, c.humus
		}
		for i := 0; i <= g.N; i++ {
			g.TSOIL[0][i] = 15 - 6*float64(i)/float64(g.N)
		}
		// a small kink, as any change of the surface temperature produces
		g.TSOIL[0][1] -= 1
		for day := 0; day < 5; day++ {
			Soiltemp(&g)
		}
		if g.HEATCOND[0] < 0 {
			t.Errorf("BD=%.2f WG=%.2f: heat conductivity is negative: %g (diffusion number %g)", c.bd, c.wg, g.HEATCOND[0], g.HEATCOND[0]/g.HEATCAP[0]/24/100)
		}
		for i := 1; i <= g.N; i++ {
			if v := g.TD[i]; math.IsNaN(v) || v < 9-1e-9 || v > 15+1e-9 {
				t.Errorf("BD=%.2f WG=%.2f: after 5 days TD[%d] = %g is outside [9, 15]; TD[0..5] = %v", c.bd, c.wg, i, v, g.TD[:6])
				break
			}
		}
	}
}
