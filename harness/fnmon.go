package main

import (
	"bufio"
	"encoding/json"
	"fmt"
	"os"
	"os/exec"
	"path/filepath"
	"strconv"
	"strings"
	"sync"
)

// ------------------------------------------------------------------------------------
// E3 "fnmon": dense / exhaustive execution of real public functions and real binaries
// against independent reference oracles. Work is sharded over child processes
// (a log.Fatal inside the function under test kills only the shard; the parent
// attributes the crash to the last BEGIN marker the shard wrote).
// ------------------------------------------------------------------------------------

type FnResult struct {
	Shard      int              `json:"shard"`
	Evals      int64            `json:"evals"`
	NonTrivial int64            `json:"nontrivial"`
	Cov        map[string]int64 `json:"cov,omitempty"`
	Violations []Violation      `json:"violations,omitempty"`
	NViol      map[string]int   `json:"nviol,omitempty"`
	Samples    []interface{}    `json:"samples,omitempty"`
	Crashed    bool             `json:"crashed,omitempty"`
	CrashAt    string           `json:"crash_at,omitempty"`
	CrashMsg   string           `json:"crash_msg,omitempty"`
	TimedOut   bool             `json:"timed_out,omitempty"`
}

func (r *FnResult) cov(k string, n int64) {
	if r.Cov == nil {
		r.Cov = map[string]int64{}
	}
	r.Cov[k] += n
}
func (r *FnResult) covMax(k string, n int64) {
	if r.Cov == nil {
		r.Cov = map[string]int64{}
	}
	if n > r.Cov[k] {
		r.Cov[k] = n
	}
}

func (r *FnResult) violate(prop, sig, msg string, terms map[string]float64) {
	if r.NViol == nil {
		r.NViol = map[string]int{}
	}
	key := prop + "|" + sig
	r.NViol[key]++
	if r.NViol[key] > maxViolPerSig {
		return
	}
	r.Violations = append(r.Violations, Violation{Prop: prop, Sig: sig, Msg: msg, Terms: terms})
}

func (r *FnResult) sample(s interface{}) {
	if len(r.Samples) < 3 {
		r.Samples = append(r.Samples, s)
	}
}

// fnShardFunc runs shard `shard` of `nshards`; begin(marker) must be called before each unit of work.
type fnShardFunc func(tier string, seed uint64, shard, nshards int, begin func(marker string)) *FnResult

var fnProps = map[string]fnShardFunc{}

// fnShards: number of shards each function-engine check uses (also needed to replay one shard)
var fnShards = map[string]int{"C12": 16, "C17": 24, "C20": 16}

// replayFnShard re-runs the shard of a function-engine witness in this process and reports its violations.
func replayFnShard(prop, tier string, seed uint64, index int, dir string) int {
	fn, ok := fnProps[prop]
	if !ok || index < 1000000 {
		return -1
	}
	res := fn(tier, seed, index-1000000, fnShards[prop], func(string) {})
	findings := loadFindings()
	exit := 0
	for _, v := range res.Violations {
		if f := matchFinding(findings, v.Prop, v.Sig); f != nil {
			fmt.Printf("KNOWN-FINDING: property=%s %s signature=%s %s\n", v.Prop, f.ID, v.Sig, v.Msg)
		} else {
			fmt.Printf("VIOLATION property=%s replay=%s\n  signature=%s %s\n", v.Prop, dir, v.Sig, v.Msg)
			exit = 1
		}
	}
	fmt.Printf("replayed shard %d of %s: %d evaluations, %d violation kinds\n", index-1000000, prop, res.Evals, len(res.Violations))
	return exit
}

// fnWorkerMain: vmon fnworker <prop> <tier> <seed> <shard> <nshards> <out>
func fnWorkerMain(prop, tier string, seed uint64, shard, nshards int, outPath string) {
	f, err := os.OpenFile(outPath, os.O_CREATE|os.O_APPEND|os.O_WRONLY, 0644)
	if err != nil {
		fmt.Fprintln(os.Stderr, err)
		os.Exit(3)
	}
	defer f.Close()
	w := bufio.NewWriter(f)
	begin := func(marker string) {
		fmt.Fprintf(w, "BEGIN %s\n", marker)
		w.Flush()
	}
	fn, ok := fnProps[prop]
	if !ok {
		fmt.Fprintln(os.Stderr, "no fn engine for", prop)
		os.Exit(3)
	}
	res := fn(tier, seed, shard, nshards, begin)
	res.Shard = shard
	b, _ := json.Marshal(res)
	fmt.Fprintf(w, "RESULT %s\n", b)
	w.Flush()
}

// runFnSharded runs all shards in child processes.
func runFnSharded(prop, tier string, seed uint64, nshards int, budgetSec int) []*FnResult {
	self, _ := os.Executable()
	tmp, _ := os.MkdirTemp(scratchBase, "fn")
	defer os.RemoveAll(tmp)
	out := make([]*FnResult, nshards)
	var wg sync.WaitGroup
	sem := make(chan struct{}, 16)
	for s := 0; s < nshards; s++ {
		wg.Add(1)
		go func(s int) {
			defer wg.Done()
			sem <- struct{}{}
			defer func() { <-sem }()
			outPath := filepath.Join(tmp, fmt.Sprintf("s%d.out", s))
			logPath := filepath.Join(tmp, fmt.Sprintf("s%d.log", s))
			cmd := exec.Command("timeout", "-s", "QUIT", strconv.Itoa(budgetSec), self, "fnworker", prop, tier, strconv.FormatUint(seed, 10), strconv.Itoa(s), strconv.Itoa(nshards), outPath)
			lf, _ := os.Create(logPath)
			cmd.Stdout = lf
			cmd.Stderr = lf
			cmd.Env = append(os.Environ(), "VERIF_SCRATCH="+tmp)
			err := cmd.Run()
			lf.Close()
			res, last := parseFnOut(outPath)
			if res == nil {
				res = &FnResult{Shard: s, Crashed: true, CrashAt: last}
				exitCode := -1
				if ee, ok := err.(*exec.ExitError); ok {
					exitCode = ee.ExitCode()
				}
				tail := tailFile(logPath, 30)
				res.CrashMsg = fmt.Sprintf("exit %d: %s", exitCode, fatalLine(tail))
				if exitCode == 124 || exitCode == 131 || strings.Contains(tail, "SIGQUIT") {
					res.TimedOut = true
					res.CrashMsg = "wall-clock watchdog fired: " + goroutineFrame(tail)
				}
			}
			out[s] = res
		}(s)
	}
	wg.Wait()
	return out
}

func parseFnOut(path string) (*FnResult, string) {
	f, err := os.Open(path)
	if err != nil {
		return nil, ""
	}
	defer f.Close()
	sc := bufio.NewScanner(f)
	sc.Buffer(make([]byte, 1<<20), 64<<20)
	last := ""
	var res *FnResult
	for sc.Scan() {
		l := sc.Text()
		if strings.HasPrefix(l, "BEGIN ") {
			last = strings.TrimPrefix(l, "BEGIN ")
		} else if strings.HasPrefix(l, "RESULT ") {
			var r FnResult
			if json.Unmarshal([]byte(strings.TrimPrefix(l, "RESULT ")), &r) == nil {
				res = &r
			}
		}
	}
	return res, last
}

// fnToCases converts shard results into pseudo case results so that finishCheck can aggregate them.
// A crashed shard is a violation (signature crash:<marker class>) unless it was the watchdog.
func fnToCases(prop string, seed uint64, rs []*FnResult, crashSig func(r *FnResult) string) ([]*CaseResult, []string) {
	var out []*CaseResult
	var inconclusive []string
	for _, r := range rs {
		if r == nil {
			continue
		}
		c := &CaseResult{Prop: prop, Seed: seed, Index: 1000000 + r.Shard, Status: "ok", Cov: r.Cov, Violations: r.Violations, NViol: r.NViol,
			Evals: r.Evals, NonTrivN: r.NonTrivial, FnShard: true}
		if len(r.Samples) > 0 {
			c.Sample = map[string]interface{}{"fn_samples": r.Samples}
		}
		if r.TimedOut {
			c.Status = "timeout"
			c.Err = r.CrashMsg + " at " + r.CrashAt
		} else if r.Crashed {
			c.Status = "fatal"
			c.Err = r.CrashMsg + " at " + r.CrashAt
			sig := "crash"
			if crashSig != nil {
				sig = crashSig(r)
			}
			c.Violations = append(c.Violations, Violation{Prop: prop, Sig: sig, Msg: fmt.Sprintf("the process died while executing %q: %s", r.CrashAt, r.CrashMsg)})
		}
		out = append(out, c)
	}
	return out, inconclusive
}
