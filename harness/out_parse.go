package main

import (
	"fmt"
	"os"
	"strconv"
	"strings"
)

// ------------------------------------------------------------------------------------
// parsing of result files written by real runs
// ------------------------------------------------------------------------------------

type outRec struct {
	zeit   int
	date   Date
	fields []string
	raw    string
	line   int
	fixedW bool // fixed-width line had exactly the configured length
}

// parseModelDate parses the date text the model prints (separator '.') in the given format.
func parseModelDate(s string, format int, divideCentury int) (Date, bool) {
	p := strings.Split(strings.TrimSpace(s), ".")
	if len(p) != 3 {
		return Date{}, false
	}
	a, e1 := strconv.Atoi(p[0])
	b, e2 := strconv.Atoi(p[1])
	y, e3 := strconv.Atoi(p[2])
	if e1 != nil || e2 != nil || e3 != nil {
		return Date{}, false
	}
	d, m := a, b
	if format == 2 || format == 3 {
		d, m = b, a
	}
	if format == 0 || format == 2 {
		if len(p[2]) != 2 {
			return Date{}, false
		}
		if y < divideCentury {
			y += 2000
		} else {
			y += 1900
		}
	} else if len(p[2]) != 4 {
		return Date{}, false
	}
	if m < 1 || m > 12 || d < 1 || d > 31 {
		return Date{}, false
	}
	dd := Date{y, m, d}
	if dd.T().Day() != d { // e.g. 30 February
		return Date{}, false
	}
	return dd, true
}

func colWidthSum(cols []OutCol) int {
	s := 0
	for _, c := range cols {
		s += c.Width + 1
	}
	return s
}

// readRecords parses a result file written with the given column configuration (one header line).
// dateCol >= 0: that column carries the model date text.
func readRecords(path string, cols []OutCol, csv bool, dateCol int, format, divideCentury int) ([]outRec, error) {
	return readRecordsStyle(path, cols, OutStyle{}, csv, dateCol, format, divideCentury)
}

// readRecordsStyle: as readRecords, for an output configuration with its own separator and number of header lines
func readRecordsStyle(path string, cols []OutCol, st OutStyle, csv bool, dateCol int, format, divideCentury int) ([]outRec, error) {
	b, err := os.ReadFile(path)
	if err != nil {
		return nil, err
	}
	txt := string(b)
	lines := strings.Split(txt, "\r\n")
	if len(lines) > 0 && lines[len(lines)-1] == "" {
		lines = lines[:len(lines)-1]
	}
	var recs []outRec
	for i, l := range lines {
		if i < st.headLines() {
			continue // header line(s)
		}
		r := outRec{raw: l, line: i + 1}
		if csv {
			r.fields = strings.Split(l, st.sep())
		} else {
			if len(l) == colWidthSum(cols) {
				r.fixedW = true
				pos := 0
				for _, c := range cols {
					r.fields = append(r.fields, strings.TrimSpace(l[pos:pos+c.Width]))
					pos += c.Width + 1
				}
			} else {
				r.fields = strings.Fields(l)
			}
		}
		if dateCol >= 0 && !csv && !r.fixedW {
			// a value did not fit its column (the line is longer than the configured widths): the columns cannot be cut by
			// position and empty text fields leave no token, so the date is the first token that reads as a date
			r.zeit = -1
			for _, f := range r.fields {
				if d, ok := parseModelDate(f, format, divideCentury); ok {
					r.date = d
					r.zeit = d.Zeit()
					break
				}
			}
		} else if dateCol >= 0 && dateCol < len(r.fields) {
			if d, ok := parseModelDate(r.fields[dateCol], format, divideCentury); ok {
				r.date = d
				r.zeit = d.Zeit()
			} else {
				r.zeit = -1
			}
		}
		recs = append(recs, r)
	}
	return recs, nil
}

func readDailyRecords(rc *RunCtx) ([]outRec, error) {
	p := resultFile(rc, "V")
	if p == "" {
		return nil, fmt.Errorf("no daily result file")
	}
	dc := colIndex(rc.Sc.DailyCols, "AKTUELL")
	if dc < 0 {
		dc = 0
	}
	return readRecordsStyle(p, rc.Sc.DailyCols, rc.Sc.OutStyle, rc.Sc.ResultFormat == 1, dc, rc.Sc.DateFormat, rc.Sc.DivideCentury)
}
