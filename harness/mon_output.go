package main

import (
	"fmt"
	"strconv"
	"strings"

	"github.com/zalf-rpm/Hermes2Go/hermes"
)

// =====================================================================================
// C05: output records - one per day / year / harvested crop, complete, in order
// =====================================================================================

type monC05 struct {
	beginn, ende int
	harvests     []int // absolute days on which a crop cycle finished (observed in the run)
	akfPre       int
}

func (m *monC05) Event(ev *hermes.VerifEvent, rc *RunCtx) {
	switch ev.Site {
	case "input_done":
		m.beginn = ev.G.BEGINN
		m.ende = ev.G.ENDE
	case "pre_nitro":
		m.akfPre = ev.G.AKF.Index
	case "post_nitro":
		if ev.Subd == 1 && ev.G.AKF.Index != m.akfPre && m.akfPre > 0 {
			m.harvests = append(m.harvests, ev.Zeit)
		}
	}
}

func checkFieldCount(rc *RunCtx, prop, file string, cols []OutCol, csv bool, r outRec) bool {
	if csv {
		if len(r.fields) != len(cols) {
			rc.Violate(prop, "field_count", fmt.Sprintf("%s line %d has %d fields, the output configuration defines %d columns: %q", file, r.line, len(r.fields), len(cols), r.raw), 0, 0, nil)
			return false
		}
		return true
	}
	want := colWidthSum(cols)
	// a fixed-width record is a sequence of cells, one per column, each followed by one fill character; a cell is as wide as
	// its column, or wider when the value does not fit (then it carries no padding). The line must be cut into exactly that
	// many cells - a lost separator, a lost or an extra cell leaves no valid segmentation
	if fixedWidthSegmentable(strings.ReplaceAll(r.raw, "C1 unstable", "C1_unstable"), cols, ' ') {
		if len(r.raw) > want {
			rc.Cov("fixed_width_overflow_lines", 1)
		}
		return true
	}
	rc.Violate(prop, "field_count", fmt.Sprintf("%s line %d (%d characters; %d columns of the configured widths need %d) cannot be cut into %d cells that are each followed by a fill character: %q", file, r.line, len(r.raw), len(cols), want, len(cols), r.raw), 0, 0, nil)
	return false
}

// fixedWidthSegmentable: can the line be cut into len(cols) cells, cell i at least cols[i].Width characters wide and followed
// by one fill character, a wider cell without fill characters at its ends or inside?
func fixedWidthSegmentable(l string, cols []OutCol, fill byte) bool {
	n := len(cols)
	memo := map[[2]int]bool{}
	var f func(i, pos int) bool
	f = func(i, pos int) bool {
		if i == n {
			return pos == len(l)
		}
		k := [2]int{i, pos}
		if v, ok := memo[k]; ok {
			return v
		}
		res := false
		w := cols[i].Width
		if pos+w < len(l) && l[pos+w] == fill && f(i+1, pos+w+1) {
			res = true
		}
		for L := w + 1; !res && pos+L < len(l) && L <= w+60; L++ {
			if l[pos+L-1] == fill {
				break // a wider cell holds one unpadded value: no fill character inside
			}
			if l[pos] != fill && l[pos+L] == fill && f(i+1, pos+L+1) {
				res = true
			}
		}
		memo[k] = res
		return res
	}
	return f(0, 0)
}

func (m *monC05) Finish(rc *RunCtx) {
	sc := rc.Sc
	if rc.Res.Status != "ok" {
		return
	}
	csv := sc.ResultFormat == 1
	start, end := sc.Start.Zeit(), sc.End.Zeit()
	if m.beginn != start {
		rc.Violate("C05", "start_day_mismatch", fmt.Sprintf("simulation starts on %s, the harvest date of the initial crop is %s", DateOfZeit(m.beginn), sc.Start), 0, 0, nil)
	}
	annualEnd := Date{sc.End.Y, sc.AnnualMonth, sc.AnnualDay}.Zeit()
	extended := annualEnd >= end // the model then runs until the day after the annual output date
	// ---------------- daily file ----------------
	recs, err := readDailyRecords(rc)
	if sc.OutInterval == 0 {
		// no daily time series requested: the yearly and crop files must be complete all the same
		rc.Cov("runs_interval_0", 1)
	} else if err != nil {
		rc.Violate("C05", "daily_file_missing", "daily output is enabled but there is no daily result file: "+err.Error(), 0, 0, nil)
	} else {
		var want []int
		for z := start; z <= end; z++ {
			if z%sc.OutInterval == 0 {
				want = append(want, z)
			}
		}
		if extended {
			// recorded finding F11: the run is prolonged to the day after the annual output date of the end year. The finding
			// covers exactly that prolongation; anything else (a shorter or a longer file) is judged against it and reported.
			var wantExt []int
			for z := start; z <= annualEnd+1; z++ {
				if z%sc.OutInterval == 0 {
					wantExt = append(wantExt, z)
				}
			}
			exact := len(recs) == len(wantExt)
			for i := 0; exact && i < len(recs); i++ {
				exact = recs[i].zeit == wantExt[i]
			}
			if exact && len(wantExt) > len(want) {
				rc.Violate("C05", "end_date_extension", fmt.Sprintf("daily file has %d records, expected %d: the run was prolonged from the end date %s to %s, the day after the annual output date", len(recs), len(want), sc.End, DateOfZeit(annualEnd+1)), 0, 0, nil)
			}
			want = wantExt
		}
		n := len(recs)
		bad := false
		for i := 0; i < n && i < len(want); i++ {
			if recs[i].zeit != want[i] {
				rc.Violate("C05", "daily_record_date", fmt.Sprintf("daily record %d is dated %q, expected %s (interval %d, start %s)", i+1, recs[i].raw, DateOfZeit(want[i]), sc.OutInterval, sc.Start), want[i], 0, nil)
				bad = true
				break
			}
		}
		if !bad && n < len(want) {
			rc.Violate("C05", "daily_records_missing", fmt.Sprintf("daily file has %d records, expected %d: first missing %s (end date %s)", n, len(want), DateOfZeit(want[n]), sc.End), want[n], 0, nil)
		}
		if !bad && n > len(want) {
			rc.Violate("C05", "daily_records_after_end", fmt.Sprintf("daily file has %d records, expected %d: extra record dated %q after the end %s (configured end date %s, annual output date in the end year %s)", n, len(want), recs[len(want)].raw, DateOfZeit(want[len(want)-1]), sc.End, DateOfZeit(annualEnd)), 0, 0, nil)
		}
		for _, r := range recs {
			if !checkFieldCount(rc, "C05", "daily file", sc.DailyCols, csv, r) {
				break
			}
		}
		for _, r := range recs {
			if strings.Contains(r.raw, "NaN") || strings.Contains(r.raw, "Inf") {
				rc.Violate("C05", "nan_in_output", fmt.Sprintf("daily file line %d contains NaN/Inf: %q", r.line, r.raw), 0, 0, nil)
				break
			}
		}
		rc.Cov("daily_records", int64(n))
		if colIndex(sc.DailyCols, "AKTUELL") > 0 {
			rc.Cov("runs_date_column_not_first", 1)
		}
		for _, r := range recs {
			if len(r.fields) > 0 && strings.TrimSpace(r.fields[0]) == "" {
				rc.Cov("records_leading_empty_field", 1)
			}
		}
		if sc.OutStyle.Sep != "" && csv {
			rc.Cov("runs_csv_other_separator", 1)
		}
		if sc.OutStyle.HeadLines != 0 && sc.OutStyle.headLines() != 1 {
			rc.Cov("runs_header_lines_0_or_2", 1)
		}
		rc.Cov(fmt.Sprintf("runs_interval_%d", sc.OutInterval), 1)
		// leap days inside the period
		for _, z := range want {
			if d := DateOfZeit(z); d.M == 2 && d.D == 29 {
				rc.Cov("leap_days_expected", 1)
			}
		}
	}
	// ---------------- yearly file ----------------
	if p := resultFile(rc, "Y"); p != "" {
		yr, err := readRecordsStyle(p, sc.YearlyCols, sc.OutStyle, csv, colIndex(sc.YearlyCols, "AKTUELL"), sc.DateFormat, sc.DivideCentury)
		if err == nil {
			var want []int
			yEnd := end
			if extended {
				yEnd = annualEnd + 1 // finding F11 (reported on the daily file): the prolonged run writes the end year's record too
			}
			for y := sc.Start.Y; y <= sc.End.Y; y++ {
				z := Date{y, sc.AnnualMonth, sc.AnnualDay}.Zeit()
				if z >= start && z <= yEnd {
					want = append(want, z)
				}
			}
			okDates := true
			for i := 0; i < len(yr) && i < len(want); i++ {
				if yr[i].zeit != want[i] {
					sig := "yearly_record_date"
					if yr[i].zeit == want[i]-1 || yr[i].zeit == want[i]+1 {
						sig = "annual_doy_leap_shift"
					}
					rc.Violate("C05", sig, fmt.Sprintf("yearly record %d is dated %q, expected the annual output date %s", i+1, yr[i].raw, DateOfZeit(want[i])), want[i], 0, nil)
					okDates = false
					break
				}
			}
			if okDates && len(yr) != len(want) {
				sig := "yearly_record_count"
				rc.Violate("C05", sig, fmt.Sprintf("yearly file has %d records, expected %d (annual output date %02d.%02d., period %s..%s)", len(yr), len(want), sc.AnnualDay, sc.AnnualMonth, sc.Start, sc.End), 0, 0, nil)
			}
			for _, r := range yr {
				if !checkFieldCount(rc, "C05", "yearly file", sc.YearlyCols, csv, r) {
					break
				}
			}
			rc.Cov("yearly_records", int64(len(yr)))
		}
	} else {
		rc.Violate("C05", "yearly_file_missing", "there is no yearly result file", 0, 0, nil)
	}
	// ---------------- crop file ----------------
	if p := resultFile(rc, "C"); p != "" {
		cr, err := readRecordsStyle(p, sc.CropCols, sc.OutStyle, csv, -1, sc.DateFormat, sc.DivideCentury)
		iCrop, iHD, iHY := colIndex(sc.CropCols, "Crop"), colIndex(sc.CropCols, "HarvestDOY"), colIndex(sc.CropCols, "HarvestYear")
		if err == nil {
			type exp struct {
				crop string
				harv Date
			}
			var want []exp
			for i, e := range sc.Rotation {
				if i == 0 {
					continue
				}
				cEnd := end
				if extended {
					cEnd = annualEnd + 1
				}
				if e.Harvest.Zeit() > start && e.Harvest.Zeit() <= cEnd {
					want = append(want, exp{e.Crop, e.Harvest})
					if e.Harvest.Zeit() > end {
						rc.Cov("harvest_in_extension", 1)
					}
				}
			}
			okRec := true
			for i := 0; i < len(cr) && i < len(want); i++ {
				f := cr[i].fields
				if len(f) != len(sc.CropCols) {
					break // reported by the field count check below
				}
				crop := strings.TrimSpace(f[iCrop])
				hd, _ := strconv.Atoi(strings.TrimSpace(f[iHD]))
				hy, _ := strconv.Atoi(strings.TrimSpace(f[iHY]))
				if crop != want[i].crop || hy != want[i].harv.Y || (!sc.AutoHarvest && !sc.AutoSow && hd != want[i].harv.DOY()) {
					rc.Violate("C05", "crop_record_mismatch", fmt.Sprintf("crop record %d is %s harvested on day %d of %d, the rotation entry is %s harvested %s", i+1, crop, hd, hy, want[i].crop, want[i].harv), 0, 0, nil)
					okRec = false
					break
				}
			}
			if okRec && len(cr) != len(want) {
				sig := "crop_record_count"
				rc.Violate("C05", sig, fmt.Sprintf("crop file has %d records, %d rotation entries are harvested inside the period %s..%s (observed harvest days %d)", len(cr), len(want), sc.Start, sc.End, len(m.harvests)), 0, 0, nil)
			}
			for _, r := range cr {
				if !checkFieldCount(rc, "C05", "crop file", sc.CropCols, csv, r) {
					break
				}
			}
			rc.Cov("crop_records", int64(len(cr)))
		}
	} else {
		rc.Violate("C05", "crop_file_missing", "there is no crop result file", 0, 0, nil)
	}
	if csv {
		rc.Cov("runs_csv", 1)
	} else {
		rc.Cov("runs_fixed_width", 1)
	}
	if extended {
		rc.Cov("runs_annual_date_not_before_end", 1)
	}
	rc.Res.NonTrivial = rc.Res.Days > 30
}

func init() {
	simProps["C05"] = simProp{checkSpec{Prop: "C05", Level: "exploration", NQuick: 2000, NThorough: 40000,
		Rule:   "cases = generated projects with random start / end / annual output dates (incl. leap years, 30./31. of a month), output intervals {0 (no daily file),1,2,3,7,10,30,365}, both result styles, random output configurations over scalars, 1-D and 2-D array elements, nested fields, text and unknown variables (date column at any position, records that begin with an empty text field, four alignments, separators , ; | :, not-available values incl. the empty string, 0-2 header lines, yearly and crop columns in random order); the V/Y/C files written by the real run are parsed and compared with an independent calendar: one record per expected day / annual date / harvested rotation entry, in order, with exactly the configured number of fields; non-trivial = run > 30 days",
		Floors: []string{"daily_records", "yearly_records", "crop_records", "runs_csv", "runs_fixed_width", "leap_days_expected", "runs_interval_1", "runs_interval_7", "runs_interval_365", "runs_interval_0", "runs_date_column_not_first", "records_leading_empty_field", "runs_csv_other_separator", "runs_header_lines_0_or_2"}},
		func() []Monitor { return []Monitor{&monC05{}} }}
}
