package main

import (
	"bufio"
	"encoding/json"
	"fmt"
	"os"
	"os/exec"
	"path/filepath"
	"runtime/debug"
	"sort"
	"strconv"
	"strings"
	"sync"
	"time"

	"github.com/zalf-rpm/Hermes2Go/hermes"
)

// ------------------------------------------------------------------------------------
// results
// ------------------------------------------------------------------------------------

type Violation struct {
	Prop  string             `json:"prop"`
	Sig   string             `json:"sig"` // root-cause signature, matched against known_findings.json
	Msg   string             `json:"msg"`
	Zeit  int                `json:"zeit,omitempty"`
	Date  string             `json:"date,omitempty"`
	Layer int                `json:"layer,omitempty"`
	Terms map[string]float64 `json:"terms,omitempty"`
}

type CaseResult struct {
	Prop       string                 `json:"prop"`
	Seed       uint64                 `json:"seed"`
	Index      int                    `json:"index"`
	Status     string                 `json:"status"` // ok | run_error | panic | fatal | skipped
	Err        string                 `json:"err,omitempty"`
	Days       int                    `json:"days"`
	Violations []Violation            `json:"violations,omitempty"`
	NViol      map[string]int         `json:"nviol,omitempty"` // signature -> total count (Violations keeps only the first few)
	Cov        map[string]int64       `json:"cov,omitempty"`
	NonTrivial bool                   `json:"nontrivial"`
	Sample     map[string]interface{} `json:"sample,omitempty"`
	WallMS     int64                  `json:"wall_ms"`
	// aggregated pseudo cases (function / binary engines): number of evaluations and of non-trivial ones they stand for
	Evals    int64 `json:"evals,omitempty"`
	NonTrivN int64 `json:"nontriv_n,omitempty"`
	FnShard  bool  `json:"fn_shard,omitempty"`
	// BlownUp: the run flagged its nitrate transport as numerically unstable and mineral N of a layer then grew beyond 1e5 kg N/ha (100 t N/ha in 10 cm of soil)
	BlownUp bool `json:"blown_up,omitempty"`
}

// sigBlownUp: root-cause signature of everything that is observed in a run after its (flagged) instability has grown
// mineral N beyond any physical magnitude (it ends in floating-point overflow: Inf, NaN in state and output)
const sigBlownUp = "blown_up_after_flagged_instability"

// noteBlowUp is called with every probe event before the monitors see it
func (rc *RunCtx) noteBlowUp(g *hermes.GlobalVarsMain) {
	if rc.Res.BlownUp || g == nil || g.C1NotStableErr == "" {
		return
	}
	for z := 0; z < g.N && z < len(g.C1); z++ {
		if c := g.C1[z]; !finite(c) || c > 1e5 || c < -1e5 {
			rc.Res.BlownUp = true
			rc.Cov("runs_blown_up_after_flagged_instability", 1)
			return
		}
	}
}

// RunCtx is handed to monitors.
type RunCtx struct {
	Sc        *Scenario
	Root      string
	ResultDir string
	Res       *CaseResult
	Logs      []string
	RunErr    error
	liveG     *hermes.GlobalVarsMain
	Crashed   bool
	mu        sync.Mutex
	// WarmArgs: batch line of another project that is run first in the SAME session (no monitors): what that run leaves in
	// the session (cached tables, pooled files) may not reach the monitored run
	WarmArgs []string
	warming  bool
}

const maxViolPerSig = 3

func (rc *RunCtx) Violate(prop, sig, msg string, zeit, layer int, terms map[string]float64) {
	if rc.Res.NViol == nil {
		rc.Res.NViol = map[string]int{}
	}
	if rc.Res.BlownUp && sig != sigBlownUp {
		msg = "[" + sig + "] " + msg
		sig = sigBlownUp
	}
	key := prop + "|" + sig
	rc.Res.NViol[key]++
	if rc.Res.NViol[key] > maxViolPerSig {
		return
	}
	for k, x := range terms {
		if !finite(x) {
			delete(terms, k)
			terms[k+"_not_finite"] = 1
		}
	}
	v := Violation{Prop: prop, Sig: sig, Msg: msg, Zeit: zeit, Layer: layer, Terms: terms}
	if zeit > 0 {
		v.Date = DateOfZeit(zeit).String()
	}
	rc.Res.Violations = append(rc.Res.Violations, v)
}

func (rc *RunCtx) Cov(key string, n int64) {
	if rc.Res.Cov == nil {
		rc.Res.Cov = map[string]int64{}
	}
	rc.Res.Cov[key] += n
}
func (rc *RunCtx) CovMax(key string, n int64) {
	if rc.Res.Cov == nil {
		rc.Res.Cov = map[string]int64{}
	}
	if n > rc.Res.Cov[key] {
		rc.Res.Cov[key] = n
	}
}

// Monitor observes one run.
type Monitor interface {
	Event(ev *hermes.VerifEvent, rc *RunCtx)
	Finish(rc *RunCtx)
}

// abortRun is the sentinel a monitor panics with to stop a run early (probe-and-abort).
type abortRun struct{ reason string }

// ------------------------------------------------------------------------------------
// running one case in-process
// ------------------------------------------------------------------------------------

var scratchBase = "" // set by main (VERIF_SCRATCH or os.TempDir())

func runScenario(sc *Scenario, monitors []Monitor, keepDir string) *CaseResult {
	t0 := time.Now()
	res := &CaseResult{Prop: sc.Prop, Seed: sc.Seed, Index: sc.Index, Status: "ok"}
	var root string
	var err error
	if keepDir != "" {
		root = keepDir
		os.MkdirAll(root, 0755)
	} else {
		root, err = os.MkdirTemp(scratchBase, "case")
		if err != nil {
			res.Status = "skipped"
			res.Err = err.Error()
			return res
		}
		defer os.RemoveAll(root)
	}
	resultDir := filepath.Join(root, "out")
	args, err := sc.Materialize(root, resultDir)
	if err != nil {
		res.Status = "skipped"
		res.Err = "materialize: " + err.Error()
		return res
	}
	rc := &RunCtx{Sc: sc, Root: root, ResultDir: resultDir, Res: res}
	if sc.SessionWarmup && len(sc.Fert) > 0 {
		// the session has already run a sister project: the same inputs under another project name with a fertiliser table of
		// its own (own parameter folder) in which every fertiliser of the schedule has other contents
		warm := cloneScenario(sc)
		warm.SessionWarmup = false
		warm.Project = sc.Project + "w"
		rw := NewRng(mix(mix(sc.Seed, uint64(sc.Index)), 1015))
		for k := 0; k < 4*len(warm.Fert); k++ {
			warm.redefineFertRow(rw)
		}
		if wa, err := warm.Materialize(root, filepath.Join(root, "out_warm")); err == nil && len(warm.OwnFertRows) > len(sc.OwnFertRows) {
			rc.WarmArgs = wa
		}
	}
	runWithMonitors(rc, root, args, monitors)
	res.WallMS = time.Since(t0).Milliseconds()
	return res
}

// runWithMonitors runs the real model once, synchronously, with the monitors attached.
func runWithMonitors(rc *RunCtx, root string, args []string, monitors []Monitor) {
	res := rc.Res
	inj := newInjector(rc.Sc)
	if d := newMonDump(); d != nil {
		monitors = append(monitors, d)
	}
	hermes.VerifSetSink(func(ev *hermes.VerifEvent) {
		if rc.warming {
			return
		}
		if ev.Site == "day_begin" {
			res.Days++
		}
		if ev.Site == "input_done" {
			rc.liveG = ev.G
		}
		if ev.G == rc.liveG { // not the copies of the state that kernel checks work on
			rc.noteBlowUp(ev.G)
			if !res.BlownUp && strings.HasPrefix(ev.Site, "nclamp:") && ev.G.C1NotStableErr != "" && (ev.Amount > 1e5 || ev.Amount < -1e5 || !finite(ev.Amount)) {
				res.BlownUp = true // the clamp itself moves more than 100 t N/ha in a flagged run
				rc.Cov("runs_blown_up_after_flagged_instability", 1)
			}
		}
		if inj != nil {
			inj.Event(ev, rc)
		}
		for _, m := range monitors {
			m.Event(ev, rc)
		}
	})
	defer hermes.VerifSetSink(nil)
	session := hermes.NewHermesSession()
	out := make(chan *hermes.RunReturn, 1)
	logc := make(chan string, 64)
	var wg sync.WaitGroup
	wg.Add(1)
	go func() {
		defer wg.Done()
		for s := range logc {
			rc.mu.Lock()
			if len(rc.Logs) < 200 {
				rc.Logs = append(rc.Logs, s)
			}
			rc.mu.Unlock()
		}
	}()
	if len(rc.WarmArgs) > 0 {
		rc.warming = true
		func() {
			defer func() { recover() }()
			wout := make(chan *hermes.RunReturn, 1)
			wlog := make(chan string, 64)
			done := make(chan struct{})
			go func() {
				for range wlog {
				}
				close(done)
			}()
			defer func() { close(wlog); <-done }()
			session.Run(root, rc.WarmArgs, "[w]", wout, wlog)
		}()
		rc.warming = false
		rc.Cov("runs_in_a_session_that_ran_a_sister_project_first", 1)
	}
	func() {
		defer func() {
			if r := recover(); r != nil {
				if a, ok := r.(abortRun); ok {
					res.Status = "aborted"
					res.Err = a.reason
					return
				}
				rc.Crashed = true
				res.Status = "panic"
				st := string(debug.Stack())
				res.Err = fmt.Sprintf("%v | %s", r, crashFrame(st))
			}
		}()
		session.Run(root, args, "[0]", out, logc)
	}()
	close(logc)
	wg.Wait()
	select {
	case r := <-out:
		if !r.Success {
			res.Status = "run_error"
			rc.RunErr = r.Err
			if r.Err != nil {
				res.Err = r.Err.Error()
			}
		}
	default:
	}
	session.Close()
	for _, m := range monitors {
		m.Finish(rc)
	}
}

// crashFrame extracts the first hermes frame of a panic stack: "file.go:line func"
func crashFrame(stack string) string {
	lines := strings.Split(stack, "\n")
	for i := 0; i+1 < len(lines); i++ {
		if strings.Contains(lines[i], "Hermes2Go/hermes.") && !strings.Contains(lines[i], "Verif") && !strings.Contains(lines[i], "verif") {
			fn := strings.TrimSpace(lines[i])
			if k := strings.Index(fn, "("); k > 0 {
				fn = fn[:k]
			}
			fn = fn[strings.LastIndex(fn, "/")+1:]
			loc := strings.TrimSpace(lines[i+1])
			if k := strings.Index(loc, " "); k > 0 {
				loc = loc[:k]
			}
			loc = loc[strings.LastIndex(loc, "/")+1:]
			return fn + " " + loc
		}
	}
	return "unknown frame"
}

// ------------------------------------------------------------------------------------
// state injection (see DESIGN 2.3): a legitimate state overwrite at pre_evatra
// ------------------------------------------------------------------------------------

type injector struct {
	plan    map[int]Injection
	start   int
	Applied map[int]bool
}

func newInjector(sc *Scenario) *injector {
	if sc == nil || len(sc.Inject) == 0 {
		return nil
	}
	in := &injector{plan: map[int]Injection{}, start: sc.Start.Zeit(), Applied: map[int]bool{}}
	for _, i := range sc.Inject {
		in.plan[i.Day] = i
	}
	return in
}

// the injection happens on "day_begin" (before the groundwater block, irrigation and deposition), i.e. it
// looks to the model exactly like a state that the previous day left behind.
func (in *injector) Event(ev *hermes.VerifEvent, rc *RunCtx) {
	if ev.Site != "day_begin" {
		return
	}
	p, ok := in.plan[ev.Zeit-in.start]
	if !ok || ev.Zeit == in.start {
		return
	}
	g := ev.G
	for z := 0; z < g.N && z < len(p.WFrac); z++ {
		lo := g.WMIN[z] / 3
		g.WG[1][z] = lo + p.WFrac[z]*(g.W[z]-lo)
		if p.WFrac[z] < 0 {
			// an air-dry sample: below the dryness limit (what a measured-values record with absolute water contents can set)
			g.WG[1][z] = lo * (1 + p.WFrac[z])
			rc.Cov("injected_layers_below_dryness_limit", 1)
		}
		g.C1[z] = p.N[z]
	}
	g.WG[1][g.N] = g.WG[1][g.N-1]
	if p.Rain >= 0 {
		g.REGEN[g.TAG.Index] = p.Rain
		g.REGENdaily = p.Rain
	}
	in.Applied[ev.Zeit] = true
	rc.Cov("injections", 1)
}

func injectedDay(rc *RunCtx, zeit int) bool {
	for _, i := range rc.Sc.Inject {
		if rc.Sc.Start.Zeit()+i.Day == zeit && i.Day != 0 {
			return true
		}
	}
	return false
}

// ------------------------------------------------------------------------------------
// worker process: runs a list of case indices, one result line per case
// ------------------------------------------------------------------------------------

func workerMain(prop string, tier string, seed uint64, indices []int, outPath string) {
	f, err := os.OpenFile(outPath, os.O_CREATE|os.O_APPEND|os.O_WRONLY, 0644)
	if err != nil {
		fmt.Fprintln(os.Stderr, err)
		os.Exit(3)
	}
	defer f.Close()
	w := bufio.NewWriter(f)
	for _, idx := range indices {
		fmt.Fprintf(w, "BEGIN %d\n", idx)
		w.Flush()
		res := runCaseByIndex(prop, tier, seed, idx, "")
		b, _ := json.Marshal(res)
		fmt.Fprintf(w, "RESULT %s\n", b)
		w.Flush()
	}
}

// ------------------------------------------------------------------------------------
// parent: shard, watch, aggregate
// ------------------------------------------------------------------------------------

type checkSpec struct {
	Prop      string
	Level     string // evidence level
	NQuick    int
	NThorough int
	Rule      string
	// floors: coverage counters that must be > 0 for the run to count as conclusive
	Floors []string
	// FloorMin: counters that must reach at least the given value (e.g. the size of an exhaustively enumerated space)
	FloorMin map[string]int64
}

func runSimCheck(spec checkSpec, tier string, seed uint64) int {
	t0 := time.Now()
	n := spec.NQuick
	if tier == "thorough" {
		n = spec.NThorough
	}
	results, inconclusive := runCasesSharded(spec.Prop, tier, seed, n)
	return finishCheck(spec, tier, seed, results, inconclusive, t0, nil)
}

func runCasesSharded(prop, tier string, seed uint64, n int) ([]*CaseResult, []string) {
	workers := 16
	if n < workers {
		workers = n
	}
	if v := os.Getenv("VERIF_WORKERS"); v != "" {
		if k, err := strconv.Atoi(v); err == nil && k > 0 {
			workers = k
		}
	}
	self, _ := os.Executable()
	tmp, _ := os.MkdirTemp(scratchBase, "chk")
	defer os.RemoveAll(tmp)
	shards := make([][]int, workers)
	for i := 0; i < n; i++ {
		shards[i%workers] = append(shards[i%workers], i)
	}
	var mu sync.Mutex
	var results []*CaseResult
	var inconclusive []string
	var wg sync.WaitGroup
	for wi := 0; wi < workers; wi++ {
		wg.Add(1)
		go func(wi int) {
			defer wg.Done()
			pending := shards[wi]
			attempt := 0
			for len(pending) > 0 && attempt < 50 {
				attempt++
				outPath := filepath.Join(tmp, fmt.Sprintf("w%d_%d.out", wi, attempt))
				logPath := filepath.Join(tmp, fmt.Sprintf("w%d_%d.log", wi, attempt))
				idxs := make([]string, len(pending))
				for i, v := range pending {
					idxs[i] = strconv.Itoa(v)
				}
				// generous wall-clock watchdog: its firing is "inconclusive", never a violation
				budget := 120 + 20*len(pending)
				cmd := exec.Command("timeout", "-s", "QUIT", strconv.Itoa(budget), self, "worker", prop, tier, strconv.FormatUint(seed, 10), strings.Join(idxs, ","), outPath)
				lf, _ := os.Create(logPath)
				cmd.Stdout = lf
				cmd.Stderr = lf
				cmd.Env = append(os.Environ(), "VERIF_SCRATCH="+tmp)
				err := cmd.Run()
				lf.Close()
				done, begun := parseWorkerOut(outPath)
				mu.Lock()
				for _, r := range done {
					results = append(results, r)
				}
				mu.Unlock()
				doneSet := map[int]bool{}
				for _, r := range done {
					doneSet[r.Index] = true
				}
				var rest []int
				for _, idx := range pending {
					if !doneSet[idx] {
						rest = append(rest, idx)
					}
				}
				if err == nil || len(rest) == 0 {
					pending = rest
					continue
				}
				// abnormal exit: attribute to the case that had begun but not finished
				exitCode := -1
				if ee, ok := err.(*exec.ExitError); ok {
					exitCode = ee.ExitCode()
				}
				tail := tailFile(logPath, 30)
				if begun >= 0 && !doneSet[begun] {
					r := &CaseResult{Prop: prop, Seed: seed, Index: begun, Status: "fatal", Err: fmt.Sprintf("worker exit %d: %s", exitCode, fatalLine(tail))}
					if exitCode == 124 || exitCode == 131 || strings.Contains(tail, "SIGQUIT") {
						r.Status = "timeout"
						r.Err = "wall-clock watchdog fired (inconclusive): " + goroutineFrame(tail)
					}
					mu.Lock()
					results = append(results, r)
					mu.Unlock()
					var rest2 []int
					for _, idx := range rest {
						if idx != begun {
							rest2 = append(rest2, idx)
						}
					}
					rest = rest2
				} else {
					mu.Lock()
					inconclusive = append(inconclusive, fmt.Sprintf("worker %d exit %d without case attribution: %s", wi, exitCode, fatalLine(tail)))
					mu.Unlock()
					break
				}
				pending = rest
			}
		}(wi)
	}
	wg.Wait()
	sort.Slice(results, func(i, j int) bool { return results[i].Index < results[j].Index })
	return results, inconclusive
}

func parseWorkerOut(path string) (done []*CaseResult, begun int) {
	begun = -1
	f, err := os.Open(path)
	if err != nil {
		return nil, -1
	}
	defer f.Close()
	sc := bufio.NewScanner(f)
	sc.Buffer(make([]byte, 1<<20), 64<<20)
	for sc.Scan() {
		l := sc.Text()
		if strings.HasPrefix(l, "BEGIN ") {
			begun, _ = strconv.Atoi(strings.TrimPrefix(l, "BEGIN "))
		} else if strings.HasPrefix(l, "RESULT ") {
			var r CaseResult
			if json.Unmarshal([]byte(strings.TrimPrefix(l, "RESULT ")), &r) == nil {
				done = append(done, &r)
			}
		}
	}
	return done, begun
}

func tailFile(path string, n int) string {
	b, err := os.ReadFile(path)
	if err != nil {
		return ""
	}
	lines := strings.Split(strings.TrimRight(string(b), "\n"), "\n")
	if len(lines) > 400 {
		// keep head of goroutine dump too
		lines = append(lines[:200], lines[len(lines)-200:]...)
	}
	if len(lines) > n && !strings.Contains(string(b), "SIGQUIT") {
		lines = lines[len(lines)-n:]
	}
	return strings.Join(lines, "\n")
}

func fatalLine(tail string) string {
	lines := strings.Split(tail, "\n")
	for i := len(lines) - 1; i >= 0; i-- {
		l := strings.TrimSpace(lines[i])
		if l != "" && !strings.HasPrefix(l, "exit status") {
			if len(l) > 300 {
				l = l[:300]
			}
			return l
		}
	}
	return ""
}

func goroutineFrame(dump string) string {
	lines := strings.Split(dump, "\n")
	for i := 0; i+1 < len(lines); i++ {
		if strings.Contains(lines[i], "Hermes2Go/hermes.") {
			return strings.TrimSpace(lines[i]) + " " + strings.TrimSpace(lines[i+1])
		}
	}
	return ""
}

// ------------------------------------------------------------------------------------
// known findings
// ------------------------------------------------------------------------------------

type Finding struct {
	ID          string `json:"id"`
	Property    string `json:"property"`
	Signature   string `json:"signature"`
	Status      string `json:"status"` // open | fixed
	Commit      string `json:"commit,omitempty"`
	Description string `json:"description"`
}

func loadFindings() []Finding {
	b, err := os.ReadFile(filepath.Join(verifDir, "known_findings.json"))
	if err != nil {
		return nil
	}
	var fs struct {
		Findings []Finding `json:"findings"`
	}
	if json.Unmarshal(b, &fs) != nil {
		return nil
	}
	return fs.Findings
}

func matchFinding(fs []Finding, prop, sig string) *Finding {
	for i := range fs {
		if fs[i].Status == "open" && (fs[i].Property == prop || fs[i].Property == "*") && fs[i].Signature == sig {
			return &fs[i]
		}
	}
	return nil
}

// ------------------------------------------------------------------------------------
// verdict + evidence
// ------------------------------------------------------------------------------------

type Evidence struct {
	PropertyID  string                 `json:"property_id"`
	Tier        string                 `json:"tier"`
	Seed        int64                  `json:"seed"`
	Level       string                 `json:"level"`
	Coverage    map[string]interface{} `json:"coverage"`
	Assumptions []string               `json:"assumptions,omitempty"`
	WallS       float64                `json:"wall_s"`
	Violations  int                    `json:"violations"`
}

var verifDir = "/verif"

func writeEvidence(ev *Evidence) {
	// VERIF_EVIDENCE_DIR: evaluations of seeded changes write their evidence elsewhere, so that the committed
	// evidence always comes from the unchanged tree
	dir := filepath.Join(verifDir, "evidence")
	if d := os.Getenv("VERIF_EVIDENCE_DIR"); d != "" {
		dir = d
	}
	os.MkdirAll(dir, 0755)
	b, _ := json.MarshalIndent(ev, "", " ")
	os.WriteFile(filepath.Join(dir, ev.PropertyID+".json"), append(b, '\n'), 0644)
}

// finishCheck aggregates case results into verdict, stdout lines and the evidence file.
// extra: additional coverage keys (may be nil).
func finishCheck(spec checkSpec, tier string, seed uint64, results []*CaseResult, inconclusive []string, t0 time.Time, extra map[string]interface{}) int {
	findings := loadFindings()
	cov := map[string]int64{}
	status := map[string]int{}
	nonTrivial := 0
	evaluations := 0
	var samples []interface{}
	type vrec struct {
		v   Violation
		res *CaseResult
	}
	known := map[string][]vrec{}
	var unknown []vrec
	crashes := 0
	for _, r := range results {
		status[r.Status]++
		for k, v := range r.Cov {
			if strings.HasPrefix(k, "max_") {
				if v > cov[k] {
					cov[k] = v
				}
			} else {
				cov[k] += v
			}
		}
		if r.FnShard {
			evaluations += int(r.Evals)
			nonTrivial += int(r.NonTrivN)
		} else {
			evaluations++
			if r.NonTrivial {
				nonTrivial++
			}
		}
		if len(samples) < 4 && r.Sample != nil {
			samples = append(samples, r.Sample)
		}
		if r.Status == "fatal" && spec.Prop == "C04" && GenScenario("C04", seed, r.Index).WeatherFault != "" {
			// an incomplete weather input that makes the process exit with a message did "end with an error"
			status["fatal_on_incomplete_weather"]++
			cov["fault_cases_"+GenScenario("C04", seed, r.Index).WeatherFault]++
			cov["fault_cases_ended_with_error"]++
			continue
		}
		if (r.Status == "panic" || r.Status == "fatal") && !r.FnShard {
			// a run that dies on a valid generated input cannot satisfy a "for every day of every run" property
			// (and takes every other run of its batch process with it): reported under the property being checked
			crashes++
			sig := "crash:" + crashFunc(r.Err)
			if r.BlownUp {
				sig = sigBlownUp
			}
			if spec.Prop == "C04" {
				if sc := GenScenario("C04", seed, r.Index); sc.WeatherFault != "" {
					sig = faultSig(sc, sig) // consequence of the unreported incomplete weather input
				}
			}
			v := Violation{Prop: spec.Prop, Sig: sig, Msg: "run crashed on a valid generated input: " + r.Err}
			if f := matchFinding(findings, v.Prop, v.Sig); f != nil {
				known[f.ID] = append(known[f.ID], vrec{v, r})
			} else {
				unknown = append(unknown, vrec{v, r})
			}
		}
		for _, v := range r.Violations {
			if f := matchFinding(findings, v.Prop, v.Sig); f != nil {
				known[f.ID] = append(known[f.ID], vrec{v, r})
			} else {
				unknown = append(unknown, vrec{v, r})
			}
		}
	}
	// stdout
	var ids []string
	for id := range known {
		ids = append(ids, id)
	}
	sort.Strings(ids)
	for _, id := range ids {
		vs := known[id]
		f := matchFindingByID(findings, id)
		cases := map[int]bool{}
		for _, x := range vs {
			cases[x.res.Index] = true
		}
		fmt.Printf("KNOWN-FINDING: property=%s %s [%s] signature=%s observed in %d case(s), e.g. case %d: %s\n", vs[0].v.Prop, f.ID, f.Description, f.Signature, len(cases), vs[0].res.Index, vs[0].v.Msg)
	}
	exit := 0
	reported := map[string]bool{}
	for _, x := range unknown {
		key := x.v.Prop + "|" + x.v.Sig
		if reported[key] {
			continue
		}
		reported[key] = true
		path := saveReplay(spec.Prop, tier, x.res, &x.v)
		fmt.Printf("VIOLATION property=%s replay=%s\n", x.v.Prop, path)
		fmt.Printf("  signature=%s case=%d %s\n", x.v.Sig, x.res.Index, x.v.Msg)
		exit = 1
	}
	for _, s := range inconclusive {
		fmt.Println("INCONCLUSIVE:", s)
	}
	for _, r := range results {
		if r.Status == "timeout" || r.Status == "skipped" {
			fmt.Printf("INCONCLUSIVE: case %d %s: %s\n", r.Index, r.Status, r.Err)
		}
	}
	// floors: "observed nothing" never passes
	var floorMiss []string
	for _, fl := range spec.Floors {
		if cov[fl] <= 0 {
			floorMiss = append(floorMiss, fl)
		}
	}
	for k, v := range spec.FloorMin {
		if cov[k] < v {
			floorMiss = append(floorMiss, fmt.Sprintf("%s(%d<%d)", k, cov[k], v))
		}
	}
	if exit == 0 {
		if len(inconclusive) > 0 || len(floorMiss) > 0 || len(results) == 0 || status["timeout"]+status["skipped"] > len(results)/5 {
			if len(floorMiss) > 0 {
				fmt.Println("INCONCLUSIVE: coverage floors not met:", strings.Join(floorMiss, ","))
			}
			exit = 2
		}
	}
	covOut := map[string]interface{}{
		"evaluations":         evaluations,
		"distinct_nontrivial": nonTrivial,
		"rule":                spec.Rule,
		"samples":             samples,
		"case_status":         status,
		"counters":            cov,
		"known_finding_hits":  len(known),
		"crashed_cases":       crashes,
		"unknown_violations":  len(reported),
	}
	if len(samples) == 0 {
		covOut["samples"] = []interface{}{"no sample recorded"}
	}
	for k, v := range extra {
		covOut[k] = v
	}
	ev := &Evidence{PropertyID: spec.Prop, Tier: tier, Seed: int64(seed), Level: spec.Level, Coverage: covOut,
		WallS: time.Since(t0).Seconds(), Violations: len(reported),
		Assumptions: []string{"generated inputs follow the distributions in DESIGN.md 2.1; the harness oracles are trusted", "verdict holds for the executions observed only"}}
	writeEvidence(ev)
	fmt.Printf("%s %s seed=%d: evaluations=%d nontrivial=%d status=%v violations=%d known=%d wall=%.1fs\n", spec.Prop, tier, seed, evaluations, nonTrivial, status, len(reported), len(known), time.Since(t0).Seconds())
	return exit
}

// crashFunc reduces a crash description to a stable signature part (function name, no line numbers)
func crashFunc(err string) string {
	if k := strings.Index(err, " | "); k >= 0 {
		rest := strings.Fields(err[k+3:])
		if len(rest) > 0 {
			return rest[0]
		}
	}
	if strings.Contains(err, "worker exit") {
		return "process_exit"
	}
	return "unknown"
}

func matchFindingByID(fs []Finding, id string) *Finding {
	for i := range fs {
		if fs[i].ID == id {
			return &fs[i]
		}
	}
	return &Finding{ID: id}
}

// saveReplay writes the violating case (inputs + witness) to /verif/replays/<prop>/<case>/
func saveReplay(prop, tier string, r *CaseResult, v *Violation) string {
	base := filepath.Join(verifDir, "replays")
	if d := os.Getenv("VERIF_REPLAY_DIR"); d != "" {
		base = d
	}
	dir := filepath.Join(base, prop, fmt.Sprintf("%s_s%d_i%d", tier, r.Seed, r.Index))
	os.RemoveAll(dir)
	os.MkdirAll(dir, 0755)
	meta := map[string]interface{}{"prop": prop, "tier": tier, "seed": r.Seed, "index": r.Index, "witness": v, "status": r.Status, "err": r.Err}
	b, _ := json.MarshalIndent(meta, "", " ")
	os.WriteFile(filepath.Join(dir, "case.json"), b, 0644)
	// materialise the input tree for inspection (best effort)
	materializeForReplay(prop, tier, r.Seed, r.Index, filepath.Join(dir, "tree"))
	return dir
}
