package hermes

// Demonstrations for property C07 (nitrogen pools / organic bookkeeping).
//
//	go test -vet=off -count=1 -run TestC07 .
//
// Both tests build their project in t.TempDir() from the shipped examples/ folder
// (project, parameter files, weather) and run the unchanged simulation in-process.

import (
	"fmt"
	"io"
	"math"
	"os"
	"path/filepath"
	"strconv"
	"strings"
	"testing"
)

type c07Col struct {
	name string
	idx  int // -1: scalar
	str  bool
}

func (c c07Col) key() string {
	if c.idx >= 0 {
		return fmt.Sprintf("%s[%d]", c.name, c.idx)
	}
	return c.name
}

func c07CopyFile(t *testing.T, src, dst string) {
	t.Helper()
	if err := os.MkdirAll(filepath.Dir(dst), 0o755); err != nil {
		t.Fatal(err)
	}
	in, err := os.Open(src)
	if err != nil {
		t.Fatal(err)
	}
	defer in.Close()
	out, err := os.Create(dst)
	if err != nil {
		t.Fatal(err)
	}
	defer out.Close()
	if _, err := io.Copy(out, in); err != nil {
		t.Fatal(err)
	}
}

func c07CopyDir(t *testing.T, src, dst string) {
	t.Helper()
	entries, err := os.ReadDir(src)
	if err != nil {
		t.Fatal(err)
	}
	for _, e := range entries {
		if e.IsDir() {
			c07CopyDir(t, filepath.Join(src, e.Name()), filepath.Join(dst, e.Name()))
		} else {
			c07CopyFile(t, filepath.Join(src, e.Name()), filepath.Join(dst, e.Name()))
		}
	}
}

// c07Setup copies parameter files, the historical weather file and one example project into a temp root
func c07Setup(t *testing.T, project string) string {
	t.Helper()
	root := t.TempDir()
	ex := filepath.Join("..", "examples")
	c07CopyDir(t, filepath.Join(ex, "parameter"), filepath.Join(root, "parameter"))
	c07CopyFile(t, filepath.Join(ex, "weather", "historical", "109_120.csv"), filepath.Join(root, "weather", "historical", "109_120.csv"))
	c07CopyDir(t, filepath.Join(ex, "project", project), filepath.Join(root, "project", project))
	return root
}

// c07Run writes a daily output configuration with the wanted state variables (full precision, csv),
// runs the project and returns the daily rows
func c07Run(t *testing.T, root, project string, cols []c07Col, args ...string) (dates []string, rows []map[string]float64) {
	t.Helper()
	var sb strings.Builder
	sb.WriteString("FillCharacter: ' '\nSeperatorCharacter: ','\nNaValue: n.a.\nDataColumns:\n")
	for _, c := range cols {
		if c.str {
			sb.WriteString("- Format: '%s'\n")
		} else {
			sb.WriteString("- Format: '%.17g'\n")
		}
		sb.WriteString("  DataAlignment: left\n  Width: 10\n  VariableName: " + c.name + "\n")
		if c.idx > 0 {
			sb.WriteString(fmt.Sprintf("  VarIndex1: %d\n", c.idx))
		}
	}
	if err := os.WriteFile(filepath.Join(root, "project", project, "dailyout_conf.yml"), []byte(sb.String()), 0o644); err != nil {
		t.Fatal(err)
	}
	res := filepath.Join(root, "RESULT_c07")
	all := append([]string{"project=" + project, "resultfolder=" + res, "ResultFileFormat=1", "ResultFileExt=csv", "OutputIntervall=1"}, args...)
	session := NewHermesSession()
	out := make(chan *RunReturn, 1)
	logout := make(chan string, 100)
	done := make(chan struct{})
	go func() {
		for range logout {
		}
		close(done)
	}()
	session.Run(root, all, "c07", out, logout)
	r := <-out
	close(logout)
	<-done
	session.Close()
	if !r.Success {
		t.Fatalf("run failed: %v", r.Err)
	}
	files, _ := filepath.Glob(filepath.Join(res, "V*.csv"))
	if len(files) != 1 {
		t.Fatalf("daily output not found in %s", res)
	}
	data, err := os.ReadFile(files[0])
	if err != nil {
		t.Fatal(err)
	}
	for _, ln := range strings.Split(strings.ReplaceAll(string(data), "\r\n", "\n"), "\n") {
		f := strings.Split(ln, ",")
		if len(f) != len(cols) {
			continue
		}
		row := map[string]float64{}
		date := ""
		ok := true
		for i, c := range cols {
			if c.str {
				date = strings.TrimSpace(f[i])
				continue
			}
			x, err := strconv.ParseFloat(strings.TrimSpace(f[i]), 64)
			if err != nil {
				ok = false
				break
			}
			row[c.key()] = x
		}
		if ok {
			dates = append(dates, date)
			rows = append(rows, row)
		}
	}
	if len(rows) < 300 {
		t.Fatalf("only %d daily rows read", len(rows))
	}
	return dates, rows
}

// TestC07_AlfalfaRegrowthCreatesOrganicN:
// alfalfa (shipped PARAM.AA, a permanent legume crop) sown on 1 April 1981 with a late first cut (1 Nov 1981),
// second cut 1 June 1982, third cut 1 Nov 1982; no fertiliser at all. When the uncut stand has matured and the leaves
// have died back, the "automatic regrowth" branch of PhytoOut hands the dead stems and ears over to the slowly
// decomposable pool NAOS. The N that leaves the crop is (stem+ear mass)*N concentration; the pool however receives
// stem DRY MATTER + ear mass*N concentration, i.e. > 1000 kg N/ha out of nothing.
// Invariant checked (no manure/fertiliser in this run): on no day can pool+counter (NAOS+NFOS+MINAOS+MINFOS over all
// layers) gain more N than the crop contained the day before.
func TestC07_AlfalfaRegrowthCreatesOrganicN(t *testing.T) {
	root := c07Setup(t, "myP")
	p := filepath.Join(root, "project", "myP")
	crop := "Field_ID    crp  sowing harvst Rex yld autorg variety comment\n" +
		"SOYSM1    SM  05151980 09301980 080 050 0 \n" +
		"SOYSM1    AA  04011981 11011981 100 000 0 \n" +
		"SOYSM1    AA  11021981 06011982 100 000 0 \n" +
		"SOYSM1    AA  06021982 11011982 100 000 0 \n"
	fert := "Field_ID  N   Frt date\nend\n"
	til := "Field_ID  Ti Typ date\n          cm\nSOYSM1    25 1   03151981\nend\n"
	irr := "Field_ID  Ir N03 date\n          mm mg/l \nend\n"
	for name, content := range map[string]string{"crop_myP.txt": crop, "fert_myP.txt": fert, "til_myP.txt": til, "irr_myP.txt": irr} {
		if err := os.WriteFile(filepath.Join(p, name), []byte(content), 0o644); err != nil {
			t.Fatal(err)
		}
	}
	cols := []c07Col{{"AKTUELL", -1, true}, {"PESUM", -1, false}, {"GEHOB", -1, false}, {"WORG", 2, false}, {"WORG", 3, false}}
	for _, n := range []string{"NAOS", "NFOS", "MINAOS", "MINFOS"} {
		for i := 0; i < 21; i++ {
			cols = append(cols, c07Col{n, i, false})
		}
	}
	// soil 002 (silt loam) of the shipped soil file, manual management, no irrigation
	dates, rows := c07Run(t, root, "myP", cols, "plotNr=10001", "poligonID=1", "soilId=002", "AutoIrrigation=0", "EndDate=12311982")
	org := func(r map[string]float64) float64 {
		s := 0.0
		for _, n := range []string{"NAOS", "NFOS", "MINAOS", "MINFOS"} {
			for i := 0; i < 21; i++ {
				s += r[fmt.Sprintf("%s[%d]", n, i)]
			}
		}
		return s
	}
	bad := 0
	// the first days are skipped: the residues of the preceding crop (silage maize) are a legitimate input on the day after the start
	for i := 5; i < len(rows); i++ {
		for k, x := range rows[i] {
			if math.IsNaN(x) || math.IsInf(x, 0) {
				t.Fatalf("%s %s = %v", dates[i], k, x)
			}
		}
		gain := org(rows[i]) - org(rows[i-1])
		cropN := rows[i-1]["PESUM"]
		if gain > cropN+1e-6 {
			bad++
			t.Errorf("%s: organic pools+counters gained %.1f kg N/ha in one day, but the crop held only %.1f kg N/ha and gave up %.1f (stem %.0f + ear %.0f kg DM/ha at %.4f kg N/kg = %.1f kg N/ha); no fertiliser, manure or harvest on that day",
				dates[i], gain, cropN, cropN-rows[i]["PESUM"], rows[i-1]["WORG[2]"], rows[i-1]["WORG[3]"], rows[i-1]["GEHOB"],
				(rows[i-1]["WORG[2]"]+rows[i-1]["WORG[3]"])*rows[i-1]["GEHOB"])
		}
	}
	if bad == 0 {
		t.Logf("ok: on all %d days the organic pools gained no more N than the crop held", len(rows))
	}
}

// TestC07_N2ODenitrificationNegative (second, independent finding):
// shipped soil 037 of examples/project/ex2 (clay loam, 4.5 %% C_org, pore volume 68 %%, field capacity 44 %%)
// with the groundwater level given as 3 dm instead of 99 in the soil file. Denitr() relates the water content of the
// top 30 cm to a fixed saturation of 1-1.45/2.65 = 0.453; above a relative saturation of 1.108 the factor
// FO = 1 - 2.05*max(0, thetarel-0.62) is negative and so are the daily N2O emission and the cumulative counter.
func TestC07_N2ODenitrificationNegative(t *testing.T) {
	root := c07Setup(t, "ex2")
	soil := filepath.Join(root, "project", "ex2", "soil_ex2.csv")
	data, err := os.ReadFile(soil)
	if err != nil {
		t.Fatal(err)
	}
	oldLine := "037,4.54,TL,03,1,00,10,00,13,02,44,25,68,17,29,54,20,00,99"
	if !strings.Contains(string(data), oldLine) {
		t.Fatalf("soil 037 not found in %s", soil)
	}
	newLine := "037,4.54,TL,03,1,00,10,00,13,02,44,25,68,17,29,54,20,00,03"
	if err := os.WriteFile(soil, []byte(strings.Replace(string(data), oldLine, newLine, 1)), 0o644); err != nil {
		t.Fatal(err)
	}
	cols := []c07Col{{"AKTUELL", -1, true}, {"N2OdenDaily", -1, false}, {"N2Odencum", -1, false}, {"CUMDENIT", -1, false}, {"C1", 0, false}, {"C1", 1, false}, {"C1", 2, false}}
	dates, rows := c07Run(t, root, "ex2", cols, "plotNr=10001", "poligonID=1", "soilId=037", "EndDate=12311983")
	negDays, minCum, minDate := 0, 0.0, ""
	for i, r := range rows {
		for k, x := range r {
			if math.IsNaN(x) || math.IsInf(x, 0) {
				t.Fatalf("%s %s = %v", dates[i], k, x)
			}
		}
		if r["N2OdenDaily"] < 0 {
			negDays++
		}
		if r["N2Odencum"] < minCum {
			minCum, minDate = r["N2Odencum"], dates[i]
		}
	}
	if negDays > 0 || minCum < 0 {
		t.Errorf("N2O from denitrification negative on %d of %d days; cumulative counter N2Odencum down to %.4f kg N/ha (%s)", negDays, len(rows), minCum, minDate)
	}
}
