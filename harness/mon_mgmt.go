package main

import (
	"fmt"
	"math"
	"os"
	"strconv"
	"strings"

	"github.com/zalf-rpm/Hermes2Go/hermes"
)

// =====================================================================================
// C10: scheduled management actions take effect exactly once, on time, in full
// =====================================================================================

type mgmtEvent struct {
	zeit  int
	kind  string
	attrs map[string]string
	raw   string
}

// parseMgmtFile reads the management event log (separator ';').
func parseMgmtFile(path string, format, divideCentury int) ([]mgmtEvent, error) {
	b, err := os.ReadFile(path)
	if err != nil {
		return nil, err
	}
	var out []mgmtEvent
	for _, l := range strings.Split(string(b), "\n") {
		if strings.TrimSpace(l) == "" {
			continue
		}
		p := strings.Split(l, ";")
		if len(p) < 2 {
			out = append(out, mgmtEvent{zeit: -1, raw: l})
			continue
		}
		ev := mgmtEvent{kind: strings.TrimSpace(p[1]), attrs: map[string]string{}, raw: l, zeit: -1}
		if d, ok := parseModelDate(p[0], format, divideCentury); ok {
			ev.zeit = d.Zeit()
		}
		for _, a := range p[2:] {
			if k := strings.Index(a, ": "); k > 0 {
				ev.attrs[a[:k]] = strings.TrimSpace(a[k+2:])
			}
		}
		out = append(out, ev)
	}
	return out, nil
}

type expEvent struct {
	sched int // scheduled day
	due   int // day on which the model carries it out (sched, sched+1 or sched+2 for the second of a same-day pair)
	desc  string
	fert  *FertEvent
	till  *TillEvent
	irr   *IrrEvent
	crop  string
}

// fertRef: amounts per the fertiliser table, the applied quantity and the global fertilisation factor
func fertRef(sc *Scenario, e *FertEvent) (ndir, nh4, nfast, nslow float64, ok bool) {
	row := sc.fertRowOf(e.Type)
	if row == nil {
		return 0, 0, 0, 0, false
	}
	q := float64(e.Amount) * (sc.Fertilizat / 100)
	tot := q * row.Ntot
	nd0 := tot * row.Ndir
	nh4 = nd0 * row.NH4 * (1 - row.Loss)
	ndir = nd0 - nd0*row.NH4*row.Loss
	// the organic part is what is not directly available - the table's Ndir share taken BEFORE the volatilisation loss is
	// deducted from it (the loss leaves the system, it does not turn into organic N)
	nfast = (tot - nd0) * row.Nfst
	nslow = (tot - nd0) * row.Nslo
	return ndir, nh4, nfast, nslow, true
}

type monC10 struct {
	irrDay         bool    // an irrigation was applied today: the day's surface flux must reach the soil over the whole day
	irrInfil, irrQ float64 // surface flux x sub-step length summed over today's water sub-steps; the day's surface flux
	irrZeit        int
	beginn, ende                      int
	expFert                           []expEvent
	expTill                           []expEvent
	zeroDepthTill, tillAfterZeroDepth int
	expIrr                            []expEvent
	expSow                            []expEvent
	expHarv                           []expEvent
	irrByDay                          map[int]*IrrEvent
	fertByDue                         map[int]*expEvent
	// state snapshots
	c1Begin                float64
	dsumm, nh4sum          float64
	pools                  pools
	akfPre, ndgPre         int
	sameDayPairs, preStart int
	amountsChecked         int
	measToday              bool
	startDayFert           int
}

func dueDays(sched []int, shift int) []int {
	// the model shifts the second of two equal days by one; the action happens `shift` days after its (shifted) day
	adj := append([]int{}, sched...)
	for i := 0; i+1 < len(adj); i++ {
		if adj[i+1] <= adj[i] {
			adj[i+1] = adj[i] + 1 // carried out on consecutive days, in schedule order
		}
	}
	for i := range adj {
		adj[i] += shift
	}
	return adj
}

func (m *monC10) build(sc *Scenario) {
	start := m.beginn
	var fs []int
	var fe []*FertEvent
	for i := range sc.Fert {
		z := sc.Fert[i].D.Zeit()
		if z < start {
			m.preStart++
			continue
		}
		fs = append(fs, z)
		fe = append(fe, &sc.Fert[i])
	}
	// the residues of the initial crop are "fertilisation number one", dated on the start day: a scheduled fertilisation of the
	// start day is the second event of that day
	due := dueDays(append([]int{start}, fs...), 1)[1:]
	m.fertByDue = map[int]*expEvent{}
	for i := range fs {
		if i > 0 && fs[i] == fs[i-1] {
			m.sameDayPairs++
		}
		if fs[i] == start {
			m.startDayFert++
		}
		m.expFert = append(m.expFert, expEvent{sched: fs[i], due: due[i], fert: fe[i], desc: fmt.Sprintf("fertilisation %d kg %s scheduled %s", fe[i].Amount, fe[i].Type, fe[i].D)})
	}
	for i := range m.expFert {
		m.fertByDue[m.expFert[i].due] = &m.expFert[i]
	}
	var ts []int
	var te []*TillEvent
	for i := range sc.Till {
		z := sc.Till[i].D.Zeit()
		if z < start {
			m.preStart++
			continue
		}
		ts = append(ts, z)
		te = append(te, &sc.Till[i])
	}
	due = dueDays(ts, 1)
	for i := range ts {
		if i > 0 && ts[i] == ts[i-1] {
			m.sameDayPairs++
		}
		if te[i].Depth == 0 {
			// a row with working depth 0: nothing to carry out and nothing logged, but it takes its place in the schedule
			// (same-day shifting) and the rows after it must still be carried out
			m.zeroDepthTill++
			if i+1 < len(ts) {
				m.tillAfterZeroDepth++
			}
			continue
		}
		m.expTill = append(m.expTill, expEvent{sched: ts[i], due: due[i], till: te[i], desc: fmt.Sprintf("tillage %d cm type %d scheduled %s", te[i].Depth, te[i].Type, te[i].D)})
	}
	m.irrByDay = map[int]*IrrEvent{}
	if sc.IrrFlag && !sc.AutoIrr {
		for i := range sc.Irr {
			z := sc.Irr[i].D.Zeit()
			if z < start {
				m.preStart++
				continue
			}
			m.expIrr = append(m.expIrr, expEvent{sched: z, due: z, irr: &sc.Irr[i], desc: fmt.Sprintf("irrigation %d mm scheduled %s", sc.Irr[i].MM, sc.Irr[i].D)})
			m.irrByDay[z] = &sc.Irr[i]
		}
	}
	for i, e := range sc.Rotation {
		if i == 0 {
			continue
		}
		m.expSow = append(m.expSow, expEvent{sched: e.Sow.Zeit(), due: e.Sow.Zeit(), crop: e.Crop, desc: fmt.Sprintf("sowing of %s scheduled %s", e.Crop, e.Sow)})
		m.expHarv = append(m.expHarv, expEvent{sched: e.Harvest.Zeit(), due: e.Harvest.Zeit(), crop: e.Crop, desc: fmt.Sprintf("harvest of %s scheduled %s", e.Crop, e.Harvest)})
	}
}

func (m *monC10) Event(ev *hermes.VerifEvent, rc *RunCtx) {
	g := ev.G
	sc := rc.Sc
	switch ev.Site {
	case "input_done":
		m.beginn, m.ende = g.BEGINN, g.ENDE
		m.build(sc)
	case "day_begin":
		m.irrigationInFull(rc)
		m.c1Begin = g.C1[0]
		m.measToday = measurementDay(g, ev.Zeit)
	case "post_water":
		if m.irrDay {
			m.irrInfil += g.FLUSS0 * ev.Wdt
			m.irrQ = g.FLUSS0
		}
	case "pre_evatra":
		// irrigation water enters today's infiltration; irrigation N enters the top layer
		want := 0.0
		wantN := g.DEPOS / 365
		if e, ok := m.irrByDay[ev.Zeit]; ok {
			want = float64(e.MM) / 10
			wantN += float64(e.Conc) * float64(e.MM) * 0.01
		}
		if sc.AutoIrr {
			return // amounts are decided by the model (checked by C16)
		}
		if !closeTo(g.EffectiveIRRIG, want) {
			rc.Violate("C10", "irrigation_amount", fmt.Sprintf("%s: irrigation water added to today's rain is %.6g cm, the schedule says %.6g cm", DateOfZeit(ev.Zeit), g.EffectiveIRRIG, want), ev.Zeit, 0, nil)
		}
		if want > 0 {
			if !closeTo(g.REGEN[g.TAG.Index], g.REGENdaily+want) {
				rc.Violate("C10", "irrigation_not_in_infiltration", fmt.Sprintf("%s: water offered to the surface %.6g cm != rain %.6g + irrigation %.6g", DateOfZeit(ev.Zeit), g.REGEN[g.TAG.Index], g.REGENdaily, want), ev.Zeit, 0, nil)
			}
			rc.Cov("irrigation_days_checked", 1)
			m.irrDay, m.irrInfil, m.irrQ, m.irrZeit = true, 0, 0, ev.Zeit
		}
		if !m.measToday {
			got := g.C1[0] - m.c1Begin
			if math.Abs(got-wantN) > 1e-9+1e-12*math.Abs(g.C1[0]) {
				rc.Violate("C10", "irrigation_n_amount", fmt.Sprintf("%s: mineral N added to the top layer before the daily processes %.9g, expected deposition + irrigation N %.9g", DateOfZeit(ev.Zeit), got, wantN), ev.Zeit, 0, nil)
			}
		}
	case "pre_nitro":
		if ev.Subd == 1 {
			m.dsumm, m.nh4sum = g.DSUMM, g.NH4Sum
			m.pools = snapPools(g)
			m.akfPre, m.ndgPre = g.AKF.Index, g.NDG.Index
		}
	case "post_nitro":
		if ev.Subd != 1 {
			return
		}
		harvest := g.AKF.Index != m.akfPre
		applied := g.NDG.Index != m.ndgPre
		e, due := m.fertByDue[ev.Zeit]
		if due && !applied && !sc.AutoFert {
			rc.Violate("C10", "fertilisation_not_applied", fmt.Sprintf("%s was due on %s but no fertilisation took effect that day", e.desc, DateOfZeit(ev.Zeit)), ev.Zeit, 0, nil)
		}
		if applied && m.ndgPre == 0 && ev.Zeit == m.beginn+1 {
			// the residues of the initial crop are incorporated as "fertilisation number one" the day after the start
			rc.Cov("initial_residue_incorporations", 1)
		} else if applied && !due && !sc.AutoFert {
			rc.Violate("C10", "fertilisation_unscheduled_day", fmt.Sprintf("a fertilisation took effect on %s, no scheduled fertilisation is due that day", DateOfZeit(ev.Zeit)), ev.Zeit, 0, nil)
		}
		if applied && due && !harvest && !sc.AutoFert {
			ndir, nh4, nfast, nslow, ok := fertRef(sc, e.fert)
			if ok {
				p := snapPools(g)
				chk := func(name string, got, want float64) {
					if math.Abs(got-want) > 1e-7+1e-9*math.Abs(want) {
						rc.Violate("C10", "fertiliser_amount:"+name, fmt.Sprintf("%s: %s changed by %.10g, the fertiliser table x quantity x fertilisation factor gives %.10g", e.desc, name, got, want), ev.Zeit, 0, map[string]float64{"got": got, "want": want})
					}
				}
				chk("mineral_fertiliser_pool", g.DSUMM-m.dsumm, ndir)
				chk("ammonium_pool", g.NH4Sum-m.nh4sum, nh4)
				chk("fast_organic_pool", p.pf-m.pools.pf, nfast)
				chk("slow_organic_pool", p.pa-m.pools.pa, nslow)
				m.amountsChecked++
				rc.Cov("fertiliser_amounts_checked", 1)
				rc.Cov("fertiliser_type_"+e.fert.Type, 1)
			}
		}
	}
}

func (m *monC10) compare(rc *RunCtx, kind string, exp []expEvent, got []mgmtEvent, check func(e expEvent, g mgmtEvent) string) {
	sc := rc.Sc
	end := sc.End.Zeit()
	// events due inside the configured period must appear; events after it (the run may be extended) are not judged
	var want []expEvent
	for _, e := range exp {
		if e.due <= end {
			want = append(want, e)
		}
	}
	var have []mgmtEvent
	for _, g := range got {
		if g.zeit <= end {
			have = append(have, g)
		}
	}
	for i := 0; i < len(want) && i < len(have); i++ {
		if have[i].zeit != want[i].due {
			sig := kind + "_wrong_day"
			if have[i].zeit < want[i].sched {
				sig = kind + "_before_scheduled_date"
			}
			rc.Violate("C10", sig, fmt.Sprintf("%s event %d: carried out on %s, %s (expected on %s)", kind, i+1, DateOfZeit(have[i].zeit), want[i].desc, DateOfZeit(want[i].due)), want[i].due, 0, nil)
			return
		}
		if msg := check(want[i], have[i]); msg != "" {
			rc.Violate("C10", kind+"_event_content", fmt.Sprintf("%s event %d on %s: %s (%s; logged %q)", kind, i+1, DateOfZeit(have[i].zeit), msg, want[i].desc, have[i].raw), want[i].due, 0, nil)
			return
		}
	}
	if len(have) < len(want) {
		rc.Violate("C10", kind+"_missing", fmt.Sprintf("%d %s events were carried out inside the period, %d are scheduled: first missing %s", len(have), kind, len(want), want[len(have)].desc), want[len(have)].due, 0, nil)
	} else if len(have) > len(want) {
		rc.Violate("C10", kind+"_extra", fmt.Sprintf("%d %s events were carried out inside the period, only %d are scheduled: extra event %q", len(have), kind, len(want), have[len(want)].raw), have[len(want)].zeit, 0, nil)
	}
	rc.Cov(kind+"_events_checked", int64(mini(len(have), len(want))))
}

// runErrorViolation: a valid generated schedule must not make the run fail
func runErrorViolation(rc *RunCtx, prop string) {
	if rc.Res.Status != "run_error" {
		return
	}
	sig := "run_error_on_valid_input"
	if strings.Contains(rc.Res.Err, "tillage date") && rc.Sc.AutoHarvest {
		sig = "tillage_postponed_before_sowing"
	}
	rc.Violate(prop, sig, fmt.Sprintf("the run of a valid generated schedule ended with an error: %s (automatic sowing=%v harvest=%v)", rc.Res.Err, rc.Sc.AutoSow, rc.Sc.AutoHarvest), 0, 0, nil)
}

func (m *monC10) Finish(rc *RunCtx) {
	sc := rc.Sc
	runErrorViolation(rc, "C10")
	if rc.Res.Status == "ok" {
		m.irrigationInFull(rc)
	}
	if rc.Res.Status != "ok" {
		return
	}
	p := resultFile(rc, "M")
	if p == "" {
		rc.Violate("C10", "management_log_missing", "management events are enabled but there is no management event file", 0, 0, nil)
		return
	}
	evs, err := parseMgmtFile(p, sc.DateFormat, sc.DivideCentury)
	if err != nil {
		return
	}
	by := map[string][]mgmtEvent{}
	for _, e := range evs {
		if e.zeit < 0 {
			rc.Violate("C10", "management_log_unreadable", fmt.Sprintf("management event line cannot be parsed: %q", e.raw), 0, 0, nil)
			continue
		}
		by[e.kind] = append(by[e.kind], e)
	}
	if fl := by["fertilization"]; len(fl) > 0 && fl[0].zeit == m.beginn+1 && fl[0].attrs["Fertilizer"] == "" {
		by["fertilization"] = fl[1:] // incorporation of the initial crop's residues, not a scheduled action
	}
	if !sc.AutoFert {
		m.compare(rc, "fertilization", m.expFert, by["fertilization"], func(e expEvent, g mgmtEvent) string {
			if g.attrs["Fertilizer"] != e.fert.Type {
				return "fertiliser type " + g.attrs["Fertilizer"]
			}
			ndir, nh4, _, _, ok := fertRef(sc, e.fert)
			if ok {
				if v, err := strconv.ParseFloat(g.attrs["Ndirect"], 64); err == nil && math.Abs(v-ndir) > 1e-6 {
					return fmt.Sprintf("direct N %v, expected %.9f", v, ndir)
				}
				if v, err := strconv.ParseFloat(g.attrs["NH4"], 64); err == nil && math.Abs(v-nh4) > 1e-6 {
					return fmt.Sprintf("ammonium N %v, expected %.9f", v, nh4)
				}
			}
			return ""
		})
	}
	m.compare(rc, "tillage", m.expTill, by["tillage"], func(e expEvent, g mgmtEvent) string {
		if g.attrs["Depth"] != fmt.Sprintf("%dcm", e.till.Depth) || g.attrs["Type"] != strconv.Itoa(e.till.Type) {
			return "depth/type " + g.attrs["Depth"] + "/" + g.attrs["Type"]
		}
		return ""
	})
	if !sc.AutoIrr {
		m.compare(rc, "irrigation", m.expIrr, by["irrigation"], func(e expEvent, g mgmtEvent) string { return "" })
	}
	if !sc.AutoSow {
		m.compare(rc, "sowing", m.expSow, by["sowing"], func(e expEvent, g mgmtEvent) string {
			if strings.TrimSpace(g.attrs["Crop"]) != e.crop {
				return "crop " + g.attrs["Crop"]
			}
			return ""
		})
	}
	if !sc.AutoSow && !sc.AutoHarvest {
		m.compare(rc, "harvest", m.expHarv, by["harvest"], func(e expEvent, g mgmtEvent) string {
			if strings.TrimSpace(g.attrs["Crop"]) != e.crop {
				return "crop " + g.attrs["Crop"]
			}
			return ""
		})
	}
	for _, l := range [][]expEvent{m.expFert, m.expTill} {
		for i := 2; i < len(l); i++ {
			if l[i-1].sched == l[i-2].sched && l[i].sched == l[i-1].sched+1 {
				rc.Cov("same_day_pair_followed_by_next_day_event", 1)
			}
		}
	}
	rc.Cov("fertilisations_on_start_day", int64(m.startDayFert))
	rc.Cov("same_day_pairs", int64(m.sameDayPairs))
	rc.Cov("zero_depth_tillage_rows", int64(m.zeroDepthTill))
	rc.Cov("tillage_rows_after_a_zero_depth_row", int64(m.tillAfterZeroDepth))
	rc.Cov("pre_start_events_scheduled", int64(m.preStart))
	rc.Cov(fmt.Sprintf("runs_date_format_%d", sc.DateFormat), 1)
	if sc.OtherField {
		rc.Cov("runs_with_second_field_in_files", 1)
	}
	rc.Res.NonTrivial = rc.Res.Days > 30 && len(m.expFert)+len(m.expTill)+len(m.expIrr) > 0
}

// irrigationInFull: the water of an irrigation day (rain + irrigation - evaporation) is handed to the soil in sub-steps; what
// the sub-steps of the day hand over together must be the whole of it
func (m *monC10) irrigationInFull(rc *RunCtx) {
	if !m.irrDay {
		return
	}
	m.irrDay = false
	if math.Abs(m.irrInfil-m.irrQ) > 1e-9*(1+math.Abs(m.irrQ)) {
		rc.Violate("C10", "irrigation_not_infiltrated_in_full", fmt.Sprintf("%s: the water sub-steps of the irrigation day hand %.9g cm to the soil, the day's surface flux (rain + irrigation - evaporation) is %.9g cm", DateOfZeit(m.irrZeit), m.irrInfil, m.irrQ), m.irrZeit, 0, nil)
	}
	rc.Cov("irrigation_days_infiltration_summed", 1)
}

func init() {
	simProps["C10"] = simProp{checkSpec{Prop: "C10", Level: "exploration", NQuick: 2000, NThorough: 40000,
		Rule:   "cases = generated projects with 0-14 fertilisations over every row of the fertiliser table, 0-10 tillages in fallow windows (working depth 0, 1-4 cm and 5 cm to the profile depth), 0-12 irrigations, same-day pairs, consecutive days, events before the start and after the end, events of other fields in the same files, all four date formats; the management event log of the real run is compared per kind with a reference reader of the generated schedule (exactly once, in order, on the due day) and the state jumps on the due day with the amounts from the fertiliser table; non-trivial = >30 days and at least one scheduled action",
		Floors: []string{"fertilization_events_checked", "tillage_events_checked", "irrigation_events_checked", "sowing_events_checked", "harvest_events_checked", "fertiliser_amounts_checked", "irrigation_days_checked", "fertilisations_on_start_day", "same_day_pairs", "same_day_pair_followed_by_next_day_event", "pre_start_events_scheduled", "runs_date_format_0", "runs_date_format_1", "runs_date_format_2", "runs_date_format_3", "runs_with_second_field_in_files", "tillage_rows_after_a_zero_depth_row"}},
		func() []Monitor { return []Monitor{&monC10{}} }}
}
