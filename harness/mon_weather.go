package main

import (
	"fmt"
	"math"

	"github.com/zalf-rpm/Hermes2Go/hermes"
)

// =====================================================================================
// C04: every simulated day is driven by the weather record of exactly that date
// =====================================================================================

type monC04 struct {
	truth      map[int]*WeatherDay // absolute day -> generated record
	prev, next map[int]*WeatherDay // neighbours in the series as written
	uncovered  int
	firstUncov int
	sentinelOK bool
	yearChange bool
	leapDay    bool
	windFloor  bool
	firstYear  int // first and last year the model loads from a multi-year file
	lastYear   int
}

func (m *monC04) init(sc *Scenario) {
	m.truth = map[int]*WeatherDay{}
	ds := sc.Weather.Days
	for i := range ds {
		m.truth[ds[i].D.Zeit()] = &ds[i]
	}
}

// corrFactor: the documented monthly correction table is indexed by day of year with the month limits of a normal year
// corrFactor: the monthly precipitation correction of a date - the factor of the calendar month the date lies in
func corrFactor(sc *Scenario, d Date) float64 {
	if !sc.PrecipCorr {
		return 1
	}
	return sc.PrecoFactors[d.M-1]
}

func closeTo(a, b float64) bool { return math.Abs(a-b) <= 1e-9*math.Max(1, math.Abs(b)) }

// expected value of an optional column: the value, or the mean of the two adjacent days when it is the sentinel
func (m *monC04) optional(sc *Scenario, z int, get func(*WeatherDay) (float64, bool)) (float64, bool, bool) {
	d := m.truth[z]
	v, none := get(d)
	if !none {
		return v, false, true
	}
	p, n := m.truth[z-1], m.truth[z+1]
	if p == nil || n == nil {
		return 0, true, false
	}
	// per-year files have no neighbour across the year boundary
	if sc.Weather.Layout == 0 && (p.D.Y != d.D.Y || n.D.Y != d.D.Y) {
		return 0, true, false
	}
	pv, pn := get(p)
	nv, nn := get(n)
	if pn || nn {
		return 0, true, false
	}
	return (pv + nv) / 2, true, true
}

func (m *monC04) Event(ev *hermes.VerifEvent, rc *RunCtx) {
	sc := rc.Sc
	g := ev.G
	switch ev.Site {
	case "input_done":
		m.init(sc)
		m.firstYear = g.ANJAHR
		m.lastYear = DateOfZeit(g.ENDE).Y
	case "day_begin":
		if m.truth == nil {
			m.init(sc)
		}
		z := ev.Zeit
		date := DateOfZeit(z)
		idx := g.TAG.Index
		// calendar coupling
		if idx+1 != date.DOY() || 1900+g.J != date.Y {
			rc.Violate("C04", faultSig(sc, "day_counter_off_calendar"), fmt.Sprintf("day %s: the model's day of year is %d in year %d, the calendar says %d in %d", date, idx+1, 1900+g.J, date.DOY(), date.Y), z, 0, nil)
		}
		d := m.truth[z]
		if d == nil {
			m.uncovered++
			if m.firstUncov == 0 {
				m.firstUncov = z
			}
			return
		}
		// a series that stops inside its last year (after everything the run needs) gives that year the number of days it holds
		lastPartial := sc.Weather.EndsMidYear && len(sc.Weather.Days) > 0 && date.Y == sc.Weather.Days[len(sc.Weather.Days)-1].D.Y
		if g.JTAG != yearLen(date.Y) && !lastPartial && !(sc.WeatherFault != "" && date.Y >= sc.FaultFrom.Y && date.Y <= sc.FaultTo.Y) {
			rc.Violate("C04", faultSig(sc, "year_length"), fmt.Sprintf("day %s: year length in use is %d, the calendar says %d", date, g.JTAG, yearLen(date.Y)), z, 0, nil)
		}
		// a sentinel on the first day of the first loaded year / last day of the last loaded year of a multi-year file:
		// the adjacent day is in the file but outside the range the reader keeps (recorded finding)
		rangeEdge := sc.Weather.Layout != 0 && ((date.M == 1 && date.D == 1 && date.Y == m.firstYear) || (date.M == 12 && date.D == 31 && date.Y == m.lastYear))
		chk := func(name string, got, want float64) {
			if !closeTo(got, want) {
				sig := "wrong_record:" + name
				if rangeEdge && len(name) > 11 && name[len(name)-11:] == "_gap_filled" && got == 0 {
					sig = "sentinel_at_loaded_range_edge"
				}
				rc.Violate("C04", faultSig(sc, sig), fmt.Sprintf("day %s (day of year %d): %s in use is %.10g, the record of that date gives %.10g (layout %d)", date, date.DOY(), name, got, want, sc.Weather.Layout), z, 0,
					map[string]float64{"got": got, "want": want})
			}
		}
		chk("precipitation", g.REGEN[idx], d.Precip/10*corrFactor(sc, date))
		chk("radiation", g.RAD[idx], d.Glob/2)
		chk("tmin", g.TMIN[idx], d.Tmin)
		chk("tmax", g.TMAX[idx], d.Tmax)
		chk("humidity", g.RH[idx], d.RH)
		if sc.Weather.Layout == 2 {
			chk("tavg", g.TEMP[idx], (d.Tmin+d.Tmax)/2)
		} else {
			want, sentinel, ok := m.optional(sc, z, func(w *WeatherDay) (float64, bool) { return w.Tavg, w.NoneTavg })
			if ok {
				name := "tavg"
				if sentinel {
					name = "tavg_gap_filled"
					m.sentinelOK = true
					rc.Cov("sentinels_checked", 1)
					if date.M == 12 && date.D == 31 || date.M == 1 && date.D == 1 {
						rc.Cov("sentinels_at_year_boundary", 1)
					}
				}
				chk(name, g.TEMP[idx], want)
			}
		}
		if sc.Weather.HasSun && d.NoneSun && d.NoneSunGap {
			// a gap of several days: there is no adjacent value; the sentinel itself must never be consumed as a measurement
			rc.Cov("sunshine_gap_days_checked", 1)
			if v := g.SUND[idx]; v < 0 || v > 24 || closeTo(v, sc.Weather.NoneValue) {
				rc.Violate("C04", faultSig(sc, "wrong_record:sunshine_sentinel_consumed"), fmt.Sprintf("day %s: the sunshine duration is missing for several days in a row; the value in use is %.10g (the missing-value marker is %s): a marker is consumed as a measurement", date, v, sc.noneStr()), z, 0, nil)
			}
		}
		if sc.Weather.HasSun {
			want, sentinel, ok := m.optional(sc, z, func(w *WeatherDay) (float64, bool) { return w.Sun, w.NoneSun })
			if ok {
				name := "sunshine"
				if sentinel {
					name = "sunshine_gap_filled"
					rc.Cov("sentinels_checked", 1)
					if date.M == 12 && date.D == 31 || date.M == 1 && date.D == 1 {
						rc.Cov("sentinels_at_year_boundary", 1)
					}
				}
				chk(name, g.SUND[idx], want)
			}
		}
		if sc.Weather.HasVerd {
			want, sentinel, ok := m.optional(sc, z, func(w *WeatherDay) (float64, bool) { return w.Verd, w.NoneVerd })
			if ok {
				name := "saturation_deficit"
				if sentinel {
					name = "saturation_deficit_gap_filled"
					rc.Cov("sentinels_checked", 1)
				}
				chk(name, g.VERD[idx], want)
			}
		}
		if sc.Weather.Layout == 0 {
			chk("et0", g.ETNULL[idx], d.ET0)
		}
		// wind: the echo may be the raw value or already floored
		if !closeTo(g.WIND[idx], d.Wind) && !(d.Wind < 0.5 && closeTo(g.WIND[idx], 0.5)) {
			rc.Violate("C04", faultSig(sc, "wrong_record:wind"), fmt.Sprintf("day %s: wind in use is %.10g, the record of that date gives %.10g", date, g.WIND[idx], d.Wind), z, 0, nil)
		}
		rc.Cov("days_checked", 1)
		rc.Cov(fmt.Sprintf("days_layout_%d", sc.Weather.Layout), 1)
		if date.M == 1 && date.D == 1 && z != sc.Start.Zeit() {
			m.yearChange = true
			rc.Cov("year_changes", 1)
		}
		if date.M == 2 && date.D == 29 {
			m.leapDay = true
			rc.Cov("leap_days", 1)
		}
		if date.M == 12 && date.D == 31 && isLeap(date.Y) {
			rc.Cov("day_366", 1)
		}
		if sc.PrecipCorr {
			rc.Cov("days_precipitation_correction", 1)
		}
	case "post_evatra":
		// the wind the Penman-Monteith routines consumed: height corrected, not below 0.5 m/s
		if g.ETMETH != 3 {
			return
		}
		d := m.truth[ev.Zeit]
		if d == nil {
			return
		}
		f := 1.0
		if g.WINDHI != 2 {
			f = 4.87 / math.Log(67.8*g.WINDHI-5.42)
		}
		want := d.Wind * f
		if want < 0.5 {
			want = 0.5
			m.windFloor = true
			rc.Cov("days_wind_floor_applied", 1)
		}
		// the floor may also have been applied to the raw value before the height correction
		alt := math.Max(0.5, math.Max(0.5, d.Wind)*f)
		if !closeTo(g.WIND[g.TAG.Index], want) && !closeTo(g.WIND[g.TAG.Index], alt) {
			rc.Violate("C04", faultSig(sc, "wind_used_by_et"), fmt.Sprintf("day %s: wind used by the ET routine %.10g, expected %.10g (record %.10g, measuring height %.3g, floor 0.5)", DateOfZeit(ev.Zeit), g.WIND[g.TAG.Index], want, d.Wind, g.WINDHI), ev.Zeit, 0, nil)
		}
		rc.Cov("days_wind_used_checked", 1)
	}
}

// faultSig: with an incomplete weather input every mismatch is a consequence of the missing error
func faultSig(sc *Scenario, s string) string {
	if sc.WeatherFault != "" {
		return fmt.Sprintf("weather_error_ignored:%s_layout%d", sc.WeatherFault, sc.Weather.Layout)
	}
	return s
}

func (m *monC04) Finish(rc *RunCtx) {
	sc := rc.Sc
	if sc.WeatherFault != "" {
		rc.Cov("fault_cases_"+sc.WeatherFault, 1)
		ended := rc.Res.Status == "run_error"
		if ended {
			rc.Cov("fault_cases_ended_with_error", 1)
		}
		if m.uncovered > 0 {
			rc.Violate("C04", faultSig(sc, ""), fmt.Sprintf("weather input %s (layout %d, no records %s..%s): %d days without a weather record were simulated (first %s); run status %s %s", sc.WeatherFault, sc.Weather.Layout, sc.FaultFrom, sc.FaultTo, m.uncovered, DateOfZeit(m.firstUncov), rc.Res.Status, rc.Res.Err), m.firstUncov, 0, nil)
		} else if !ended {
			rc.Violate("C04", faultSig(sc, ""), fmt.Sprintf("weather input %s (layout %d, no records %s..%s) does not cover the simulation %s..%s but the run did not end with an error (status %s)", sc.WeatherFault, sc.Weather.Layout, sc.FaultFrom, sc.FaultTo, sc.Start, sc.End, rc.Res.Status), 0, 0, nil)
		}
		rc.Res.NonTrivial = true
		return
	}
	if m.uncovered > 0 {
		rc.Violate("C04", "uncovered_day_simulated", fmt.Sprintf("%d days without a weather record were simulated (first %s)", m.uncovered, DateOfZeit(m.firstUncov)), m.firstUncov, 0, nil)
	}
	if rc.Res.Status != "ok" {
		rc.Violate("C04", "valid_weather_rejected", fmt.Sprintf("complete weather input but the run ended with %s: %s", rc.Res.Status, rc.Res.Err), 0, 0, nil)
	}
	rc.Res.NonTrivial = rc.Res.Days > 30 && (m.yearChange || m.leapDay || m.sentinelOK)
}

func init() {
	simProps["C04"] = simProp{checkSpec{Prop: "C04", Level: "exploration", NQuick: 2000, NThorough: 40000,
		Rule:   "cases = generated projects over the three weather layouts, 2-5 years, leap years, series starting before the start year and not on 1 January, sentinel values in optional columns (also on 31 Dec / 1 Jan of multi-year files), wind below the floor, optional monthly precipitation correction; on every simulated day the arrays the model uses at its day index are compared with the generator's truth table for that calendar date after the documented normalisations; 30% of the cases carry an incomplete weather input (ends early / gap / missing year / starts late) and must end with an error without simulating an uncovered day; non-trivial = >30 days with a year change, leap day or filled sentinel, and every fault case",
		Floors: []string{"days_checked", "days_layout_0", "days_layout_1", "days_layout_2", "year_changes", "leap_days", "sentinels_checked", "sentinels_at_year_boundary", "days_wind_used_checked", "days_wind_floor_applied", "days_precipitation_correction", "fault_cases_ends_early", "fault_cases_gap", "fault_cases_missing_year", "fault_cases_starts_late"}},
		func() []Monitor { return []Monitor{&monC04{}} }}
}
