package main

import (
	"bytes"
	"encoding/json"
	"fmt"
	"os"
	"os/exec"
	"path/filepath"
	"sort"
	"strings"

	"github.com/zalf-rpm/Hermes2Go/hermes"
)

// ------------------------------------------------------------------------------------
// E4 "pairmon": differential paired runs of the real model (same content, two encodings;
// override vs edited file). Result files are compared byte for byte.
// ------------------------------------------------------------------------------------

type plainRun struct {
	Status string
	Err    string
	Days   int
	Files  map[string][]byte // base name -> content
	Logs   []string
}

func cloneScenario(sc *Scenario) *Scenario {
	b, _ := json.Marshal(sc)
	var c Scenario
	json.Unmarshal(b, &c)
	return &c
}

// sensitive daily output for paired runs: crop, water, N and temperature state with 12 significant digits
func pairDailyCols(n int) []OutCol {
	cols := []OutCol{{Format: "%s", Var: "AKTUELL", Width: 10}}
	for _, v := range []string{"OBMAS", "LAI", "WUMAS", "PESUM", "GEHOB", "ETA", "TRREL", "REDUK", "HARVEST", "OUTSUM", "SICKER", "AUFNASUM", "VERDUNST", "GRW", "TEMPdaily", "REGENdaily"} {
		cols = append(cols, OutCol{Format: "%.12g", Var: v, Width: 20})
	}
	cols = append(cols, OutCol{Format: "%d", Var: "WURZ", Width: 4}, OutCol{Format: "%d", Var: "INTWICK.Index", Width: 4})
	for z := 0; z < n && z < 4; z++ {
		cols = append(cols, OutCol{Format: "%.12g", Var: "WG", I1: 1, I2: z, Width: 20}, OutCol{Format: "%.12g", Var: "C1", I1: z, Width: 20}, OutCol{Format: "%.12g", Var: "TD", I1: z + 1, Width: 20})
	}
	return cols
}

// runPlain materialises the scenario below root and runs the real model once without monitors.
func runPlain(sc *Scenario, root string, post func(root string) []string) *plainRun {
	out := &plainRun{Status: "ok", Files: map[string][]byte{}}
	os.MkdirAll(root, 0755)
	resultDir := filepath.Join(root, "out")
	args, err := sc.Materialize(root, resultDir)
	if err != nil {
		out.Status, out.Err = "skipped", err.Error()
		return out
	}
	if post != nil {
		args = append(args, post(root)...)
	}
	rc := &RunCtx{Sc: sc, Root: root, ResultDir: resultDir, Res: &CaseResult{Prop: sc.Prop, Status: "ok"}}
	runWithMonitors(rc, root, args, nil)
	out.Status, out.Err, out.Days, out.Logs = rc.Res.Status, rc.Res.Err, rc.Res.Days, rc.Logs
	entries, _ := os.ReadDir(resultDir)
	for _, e := range entries {
		if !e.IsDir() {
			b, _ := os.ReadFile(filepath.Join(resultDir, e.Name()))
			out.Files[e.Name()] = b
		}
	}
	return out
}

// firstDiff describes the first differing line of two result files.
func firstDiff(a, b []byte) string {
	la, lb := strings.Split(string(a), "\n"), strings.Split(string(b), "\n")
	for i := 0; i < len(la) || i < len(lb); i++ {
		var x, y string
		if i < len(la) {
			x = la[i]
		}
		if i < len(lb) {
			y = lb[i]
		}
		if x != y {
			// narrow to the differing field
			fx, fy := strings.Split(x, ","), strings.Split(y, ",")
			for k := 0; k < len(fx) && k < len(fy); k++ {
				if fx[k] != fy[k] {
					return fmt.Sprintf("line %d field %d: %q vs %q (line starts %q)", i+1, k+1, fx[k], fy[k], trunc(x, 40))
				}
			}
			return fmt.Sprintf("line %d: %q vs %q", i+1, trunc(x, 120), trunc(y, 120))
		}
	}
	return "identical"
}

func trunc(s string, n int) string {
	if len(s) > n {
		return s[:n]
	}
	return s
}

// compareRuns: same set of result files, byte-identical (after the optional per-file normalisation).
func compareRuns(a, b *plainRun, norm func(name string, content []byte) []byte) (bool, string) {
	if a.Status != b.Status {
		return false, fmt.Sprintf("run status differs: %s (%s) vs %s (%s)", a.Status, trunc(a.Err, 150), b.Status, trunc(b.Err, 150))
	}
	var names []string
	for n := range a.Files {
		names = append(names, n)
	}
	for n := range b.Files {
		if _, ok := a.Files[n]; !ok {
			return false, "result file " + n + " only written by the second run"
		}
	}
	sort.Strings(names)
	for _, n := range names {
		y, ok := b.Files[n]
		if !ok {
			return false, "result file " + n + " only written by the first run"
		}
		x := a.Files[n]
		if norm != nil {
			x, y = norm(n, x), norm(n, y)
		}
		if !bytes.Equal(x, y) {
			return false, "result file " + n + " differs: " + firstDiff(x, y)
		}
	}
	return true, ""
}

func sameFiles(a, b *plainRun) bool {
	ok, _ := compareRuns(a, b, nil)
	return ok
}

// ---------------------------------------------------------------------------------
// parameter folder variants
// ---------------------------------------------------------------------------------

// linkParamFolder creates dir with symlinks to every shipped parameter file except those in `except`.
func linkParamFolder(dir string, except map[string]bool) error {
	if err := os.MkdirAll(dir, 0755); err != nil {
		return err
	}
	entries, err := os.ReadDir(paramDir)
	if err != nil {
		return err
	}
	for _, e := range entries {
		if except[e.Name()] {
			continue
		}
		if err := os.Symlink(filepath.Join(paramDir, e.Name()), filepath.Join(dir, e.Name())); err != nil {
			return err
		}
	}
	return nil
}

func cropParamFileName(crop, variety string, yml bool) string {
	name := "PARAM." + crop
	if variety != "" {
		name = "PARAM_" + variety + "." + crop
	}
	if yml {
		name += ".yml"
	}
	return name
}

// convertWithBinary runs the real cropfileconverter on a classic parameter file.
func convertWithBinary(input, output string) error {
	bin := filepath.Join(buildDir(), "cropfileconverter")
	cmd := exec.Command(bin, "-input", input, "-output", output)
	outb, err := cmd.CombinedOutput()
	if err != nil {
		return fmt.Errorf("cropfileconverter: %v: %s", err, trunc(string(outb), 300))
	}
	return nil
}

var _ = hermes.NewHermesSession
