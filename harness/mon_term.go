package main

import (
	"fmt"

	"github.com/zalf-rpm/Hermes2Go/hermes"
)

// C11 (termination): bounded progress on logical steps
type monC11 struct {
	ticks   int
	days    int
	limit   int
	hardCap int
	aborted string
}

func (m *monC11) Event(ev *hermes.VerifEvent, rc *RunCtx) {
	switch ev.Site {
	case "tick:langtag14", "tick:langtag16":
		m.ticks++
		if m.ticks > 2*366+8 {
			m.aborted = fmt.Sprintf("the day-length search loops of the fertiliser prediction ran %d iterations (latitude %v): the day length is periodic, more than 2 x 366 iterations cannot terminate", m.ticks, rc.Sc.Latitude)
			panic(abortRun{m.aborted})
		}
	case "input_done":
		m.limit = ev.G.ENDE - ev.G.BEGINN + 1
		m.hardCap = m.limit + 800
	case "day_begin":
		m.days++
		// the fertiliser prediction moves the end of the run (to the predicted application date): follow it, within a hard cap
		if l := ev.G.ENDE - ev.G.BEGINN + 1; l > m.limit && l <= m.hardCap {
			m.limit = l
		}
		if m.limit > 0 && m.days > m.limit {
			m.aborted = fmt.Sprintf("%d days simulated, the period has only %d days", m.days, m.limit)
			panic(abortRun{m.aborted})
		}
	}
}

func (m *monC11) Finish(rc *RunCtx) {
	if m.aborted != "" {
		sig := "day_loop_bound"
		if m.ticks > 2*366+8 {
			sig = "langtag_tick_bound"
		}
		rc.Violate("C11", sig, m.aborted, 0, 0, nil)
	}
	rc.Cov("termination_runs", 1)
	rc.Cov("day_length_search_calls", int64(m.ticks))
	if rc.Sc.VirtualDate != "" && rc.Sc.VirtualDate[1] != '-' {
		rc.Cov("termination_runs_with_prediction", 1)
	}
	if rc.Res.Status == "run_error" {
		rc.Violate("C11", "run_error_on_valid_input", "a valid generated configuration ended with a run error: "+rc.Res.Err, 0, 0, nil)
	}
	rc.Res.NonTrivial = rc.Res.Days > 30
}

func runC11TermCase(tier string, seed uint64, idx int, keepDir string) *CaseResult {
	r := NewRng(mix(mix(seed, uint64(idx)), 111111))
	p := defaultProfile()
	p.Inject = 0.1
	if idx%3 == 0 {
		p.AutoProb = 0.5
	}
	sc := genWithProfile("C11", seed, idx, r, p)
	sc.Latitude = float64(r.Range(-700, 800)) / 10
	if idx%2 == 0 {
		// fertiliser prediction from a virtual "today" inside the run
		total := sc.End.Zeit() - sc.Start.Zeit()
		d := sc.Start.AddDays(r.Range(20, maxi(21, total-20)))
		sc.VirtualDate = FmtDate(d, sc.DateFormat)
	}
	res := runScenario(sc, []Monitor{&monC11{}}, keepDir)
	res.Sample = scenarioSample(sc)
	res.Sample["virtual_date"] = sc.VirtualDate
	return res
}

func init() {
	caseRunners["C11"] = runC11TermCase
}
