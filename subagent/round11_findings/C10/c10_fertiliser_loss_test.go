package hermes

// Demonstration for property C10 (amount clause):
//   "... the mineral and organic N of a fertiliser enter the fertiliser and organic pools in the
//    amounts given by the fertiliser table, the applied quantity and the global fertilisation factor."
//
// For every fertiliser type of the shipped parameter/FERTILIZ.TXT one short simulation is run
// (project examples/project/rue, all automatic management switched off) with ONE application of
// that fertiliser, plus one control run without any fertiliser. The jump of the three pools on the
// day the application is carried out is taken from the daily output (difference to the control run):
//   DSUMM   (mineral fertiliser pool)
//   NFOS[0] (fast organic pool, top layer)
//   NAOS[0] (slow organic pool, top layer)
// and compared with what the table row says:
//   total   = quantity * Fertilization/100 * Ntot
//   mineral = total * Ndir * (1 - NH4*Loss)        (the volatilised part of the ammonium N is lost)
//   fast    = total * (1 - Ndir) * Nfst
//   slow    = total * (1 - Ndir) * Nslo
// The N that is lost to the air must not show up in the soil.

import (
	"fmt"
	"math"
	"os"
	"path/filepath"
	"strconv"
	"strings"
	"testing"
)

type c10FertRow struct {
	typ                               string
	ntot, ndir, nfst, nslo, nh4, loss float64
}

func c10CopyTree(t *testing.T, src, dst string) {
	t.Helper()
	entries, err := os.ReadDir(src)
	if err != nil {
		t.Fatal(err)
	}
	if err := os.MkdirAll(dst, 0o755); err != nil {
		t.Fatal(err)
	}
	for _, e := range entries {
		if e.IsDir() {
			c10CopyTree(t, filepath.Join(src, e.Name()), filepath.Join(dst, e.Name()))
			continue
		}
		b, err := os.ReadFile(filepath.Join(src, e.Name()))
		if err != nil {
			t.Fatal(err)
		}
		if err := os.WriteFile(filepath.Join(dst, e.Name()), b, 0o644); err != nil {
			t.Fatal(err)
		}
	}
}

const c10DailyConf = `FillCharacter: ' '
SeperatorCharacter: ','
NaValue: n.a.
DataColumns:
- Format: '%s'
  VariableName: AKTUELL
- Format: '%.6f'
  VariableName: DSUMM
- Format: '%.6f'
  VariableName: NFOS
  VarIndex1: 0
- Format: '%.6f'
  VariableName: NAOS
  VarIndex1: 0
Headlines:
  1:
  - ColumnName: Date
  - ColumnName: DSUMM
  - ColumnName: NFOS0
  - ColumnName: NAOS0
`

// c10RunOnce runs the project with the given fertilisation file and returns the daily output
// (date -> [DSUMM, NFOS0, NAOS0]) and the lines of the management event file.
func c10RunOnce(t *testing.T, exampleDir, fertFile string, fertFactor float64) (map[string][3]float64, []string) {
	t.Helper()
	root := t.TempDir()
	c10CopyTree(t, filepath.Join(exampleDir, "parameter"), filepath.Join(root, "parameter"))
	// only the weather file of the run is needed
	wdir := filepath.Join(root, "weather", "historical")
	if err := os.MkdirAll(wdir, 0o755); err != nil {
		t.Fatal(err)
	}
	wb, err := os.ReadFile(filepath.Join(exampleDir, "weather", "historical", "109_120.w6d"))
	if err != nil {
		t.Fatal(err)
	}
	if err := os.WriteFile(filepath.Join(wdir, "109_120.w6d"), wb, 0o644); err != nil {
		t.Fatal(err)
	}
	proj := filepath.Join(root, "project", "rue")
	c10CopyTree(t, filepath.Join(exampleDir, "project", "rue"), proj)

	// configuration of the shipped project, manual management, one season
	b, err := os.ReadFile(filepath.Join(proj, "config.yml"))
	if err != nil {
		t.Fatal(err)
	}
	repl := map[string]string{
		"AutoSowingHarvest": "0", "AutoFertilization": "0", "AutoIrrigation": "0", "AutoHarvest": "0",
		"EndDate": `"31121980"`, "Fertilization": strconv.FormatFloat(fertFactor, 'f', -1, 64),
		"ManagementEvents": "1", "OutputIntervall": "1",
	}
	lines := strings.Split(string(b), "\n")
	for i, l := range lines {
		for k, v := range repl {
			if strings.HasPrefix(l, k+":") {
				lines[i] = k + ": " + v
			}
		}
	}
	write := func(name, content string) {
		if err := os.WriteFile(filepath.Join(proj, name), []byte(content), 0o644); err != nil {
			t.Fatal(err)
		}
	}
	write("config.yml", strings.Join(lines, "\n"))
	write("dailyout_conf.yml", c10DailyConf)
	write("crop_rue.csv", "Field_ID,crp,sowing,harvst,Rex,yld,autorg,variety,comment\n"+
		"L2F3R1,WW ,01101979,04081980,080,050,0,,initial\n"+
		"L2F3R1,WRA,20091980,20071981,000,000,0,,\n")
	write("fert_rue.txt", fertFile)
	write("irr_rue.txt", "Field_ID  Ir N03 date\n          mm mg/l\nend\n")
	write("til_rue.txt", "Field_ID  Ti Typ date\n          cm\nend\n")

	res := filepath.Join(root, "RESULT")
	args := []string{"project=rue", "WeatherFolder=historical", "fcode=109_120", "plotNr=10001", "soilId=001", "poligonID=29872", "resultfolder=" + res}
	session := NewHermesSession()
	out := make(chan *RunReturn, 1)
	logout := make(chan string, 1000)
	session.Run(root, args, "c10", out, logout)
	r := <-out
	session.Close()
	if !r.Success {
		t.Fatalf("run failed: %v", r.Err)
	}
	daily := map[string][3]float64{}
	db, err := os.ReadFile(filepath.Join(res, "V2987210001.csv"))
	if err != nil {
		t.Fatal(err)
	}
	for i, l := range strings.Split(strings.TrimSpace(string(db)), "\n") {
		if i == 0 {
			continue
		}
		tok := strings.Split(l, ",")
		if len(tok) < 4 {
			continue
		}
		var v [3]float64
		for k := 0; k < 3; k++ {
			v[k], err = strconv.ParseFloat(strings.TrimSpace(tok[k+1]), 64)
			if err != nil {
				t.Fatalf("daily output line %q: %v", l, err)
			}
		}
		daily[strings.TrimSpace(tok[0])] = v
	}
	var mgmt []string
	if mb, err := os.ReadFile(filepath.Join(res, "M2987210001.txt")); err == nil {
		mgmt = strings.Split(strings.TrimSpace(string(mb)), "\n")
	}
	return daily, mgmt
}

func TestC10FertiliserAmountsFollowTheTable(t *testing.T) {
	exampleDir, err := filepath.Abs(filepath.Join("..", "examples"))
	if err != nil {
		t.Fatal(err)
	}
	// the shipped fertiliser table
	tb, err := os.ReadFile(filepath.Join(exampleDir, "parameter", "FERTILIZ.TXT"))
	if err != nil {
		t.Fatal(err)
	}
	var rows []c10FertRow
	for i, l := range strings.Split(string(tb), "\n") {
		tok := strings.Fields(l)
		if i == 0 || len(tok) < 7 {
			continue
		}
		f := func(s string) float64 {
			v, err := strconv.ParseFloat(s, 64)
			if err != nil {
				t.Fatalf("FERTILIZ.TXT %q: %v", l, err)
			}
			return v
		}
		rows = append(rows, c10FertRow{tok[0], f(tok[1]), f(tok[2]), f(tok[3]), f(tok[4]), f(tok[5]), f(tok[6])})
	}
	if len(rows) < 20 {
		t.Fatalf("only %d fertiliser types read from the table", len(rows))
	}

	const (
		quantity   = 20.0  // kg N/ha, m3/ha or dt/ha, as the unit of the type says
		fertFactor = 100.0 // config Fertilization (%)
		schedDate  = "01091980"
		dayBefore  = "01.09.1980" // scheduled day: nothing applied yet (applications are carried out one day later)
		execDay    = "02.09.1980"
	)
	ctl, _ := c10RunOnce(t, exampleDir, "Field_ID  N   Frt date\nend\n", fertFactor)

	bad := 0
	t.Logf("%-4s %5s | %9s %9s | %9s %9s | %9s %9s | %9s %9s", "type", "loss", "min.tab", "min.sim", "fast.tab", "fast.sim", "slow.tab", "slow.sim", "sum.tab", "sum.sim")
	for _, r := range rows {
		fert := fmt.Sprintf("Field_ID  N   Frt date\nL2F3R1    %03.0f %s  %s\nend\n", quantity, r.typ, schedDate)
		run, mgmt := c10RunOnce(t, exampleDir, fert, fertFactor)

		// the application is carried out exactly once, on the day after the scheduled date
		n := 0
		for _, l := range mgmt {
			tok := strings.Fields(l)
			if len(tok) > 3 && tok[1] == "fertilization" && tok[3] == r.typ {
				n++
				if tok[0] != execDay {
					t.Errorf("%s: carried out on %s, expected %s", r.typ, tok[0], execDay)
				}
			}
		}
		if n != 1 {
			t.Errorf("%s: %d fertilisation events in the management file, expected 1", r.typ, n)
		}
		a, okA := run[execDay]
		b, okB := ctl[execDay]
		a0, b0 := run[dayBefore], ctl[dayBefore]
		if !okA || !okB {
			t.Fatalf("%s: day %s missing in the daily output", r.typ, execDay)
		}
		var jump [3]float64
		for k := 0; k < 3; k++ {
			if math.Abs(a0[k]-b0[k]) > 1e-6 {
				t.Errorf("%s: pools differ from the control run before the application", r.typ)
			}
			jump[k] = a[k] - b[k]
		}
		total := quantity * fertFactor / 100 * r.ntot
		wantMin := total * r.ndir * (1 - r.nh4*r.loss)
		wantFast := total * (1 - r.ndir) * r.nfst
		wantSlow := total * (1 - r.ndir) * r.nslo
		want := [3]float64{wantMin, wantFast, wantSlow}
		names := [3]string{"mineral fertiliser pool (DSUMM)", "fast organic pool (NFOS)", "slow organic pool (NAOS)"}
		t.Logf("%-4s %5.2f | %9.3f %9.3f | %9.3f %9.3f | %9.3f %9.3f | %9.3f %9.3f", r.typ, r.loss, want[0], jump[0], want[1], jump[1], want[2], jump[2],
			want[0]+want[1]+want[2], jump[0]+jump[1]+jump[2])
		for k := 0; k < 3; k++ {
			// the organic pools are mineralised a little on the day of the application (< 1 % per day)
			tol := 0.02*want[k] + 0.01
			if math.Abs(jump[k]-want[k]) > tol {
				bad++
				t.Errorf("%s (%g units, Ntot %.2f, Ndir %.2f, Nfst %.2f, Nslo %.2f, NH4 %.2f, Loss %.2f): %s received %.3f kg N/ha, the table gives %.3f",
					r.typ, quantity, r.ntot, r.ndir, r.nfst, r.nslo, r.nh4, r.loss, names[k], jump[k], want[k])
			}
		}
		// mass balance: what is lost to the air must not enter the soil
		lost := total * r.ndir * r.nh4 * r.loss
		if in := jump[0] + jump[1] + jump[2]; lost > 0.5 && in > total-lost+0.02*total {
			t.Errorf("%s: %.1f kg N/ha applied, %.1f kg N/ha of it volatilised according to the table, but %.1f kg N/ha entered the soil pools",
				r.typ, total, lost, in)
		}
	}
	if bad > 0 {
		t.Logf("%d pool amounts differ from the fertiliser table", bad)
	}
}
