package hermes

import (
	"fmt"
	"io"
	"math"
	"os"
	"path/filepath"
	"strconv"
	"strings"
	"testing"
)

// Demonstration for property C06 ("... No NaN or infinity ever appears in any state
// variable or output of a run on valid inputs").
//
// A peat profile (texture HN, listed in HYPAR.TRU / PARCAP.TRU) is given with its real bulk
// density (0.30 / 0.35 g/cm^3) in the BulkDensity column of the csv soil file - the column the
// shipped example project "bulk" uses. Everything else is the shipped example project "bulk".
// Soiltemp() then computes a NEGATIVE thermal conductivity ((3*BD-1.7) < 0 for BD < 0.567),
// the explicit heat-diffusion scheme turns into anti-diffusion and the soil temperature
// oscillates with exponentially growing amplitude: about -8e5 degC after 5 days, +/-Inf after
// about 200 days (state TSOIL/TD, daily output columns TD / AvgTSoil), and the mineralisation
// driven by it puts >1e6 kg N/ha of nitrate into the top layer.

func c06fCopyDir(t *testing.T, src, dst string) {
	t.Helper()
	err := filepath.Walk(src, func(p string, info os.FileInfo, err error) error {
		if err != nil {
			return err
		}
		rel, _ := filepath.Rel(src, p)
		target := filepath.Join(dst, rel)
		if info.IsDir() {
			return os.MkdirAll(target, 0o755)
		}
		in, err := os.Open(p)
		if err != nil {
			return err
		}
		defer in.Close()
		out, err := os.Create(target)
		if err != nil {
			return err
		}
		defer out.Close()
		_, err = io.Copy(out, in)
		return err
	})
	if err != nil {
		t.Fatal(err)
	}
}

func TestC06SoilTemperatureFiniteOnPeatWithMeasuredBulkDensity(t *testing.T) {
	const nLayers = 20
	root := t.TempDir() // removed by the testing package
	examples := filepath.Join("..", "examples")
	c06fCopyDir(t, filepath.Join(examples, "parameter"), filepath.Join(root, "parameter"))
	c06fCopyDir(t, filepath.Join(examples, "weather", "historical"), filepath.Join(root, "weather", "historical"))
	c06fCopyDir(t, filepath.Join(examples, "project", "bulk"), filepath.Join(root, "project", "bulk"))
	project := filepath.Join(root, "project", "bulk")

	// the only change to the shipped project: a fen-peat profile with its bulk density.
	// FC / WP / pore volume are the HYPAR.TRU magnitudes for HN; a pore volume of 90 % is what
	// the model's own CalculatePoreSpace() gives for 0.27 g/cm^3.
	soil := "SID,C_org,Texture,LayerDepth,BulkDensityClass,BulkDensity,Stone,C/N,C/S,RootDepth,NumberHorizon,FieldCapacity,WiltingPoint,PoreVolume,Sand,Silt,Clay,DrainageDepth,Drainage%,GroundWaterLevel\n" +
		"050,35.0,HN,03,1,0.30,00,15,00,08,02,70,25,90,,,,20,00,99\n" +
		"050,30.0,HN,20,1,0.35,00,15,00,,,70,25,90,,,,20,00,   \n"
	if err := os.WriteFile(filepath.Join(project, "soil_bulk.csv"), []byte(soil), 0o644); err != nil {
		t.Fatal(err)
	}

	// daily output: soil temperature of every layer (state TD), the shipped AvgTSoil column,
	// nitrate and water content of the top layer - full precision
	type col struct {
		name   string
		i1, i2 int
	}
	cols := []col{}
	for i := 0; i <= nLayers; i++ {
		cols = append(cols, col{"TD", i, -1})
	}
	cols = append(cols, col{"AvgTSoil", -1, -1}, col{"C1", 0, -1}, col{"WG", 1, 0})
	var sb strings.Builder
	sb.WriteString("FillCharacter: ' '\nSeperatorCharacter: ','\nNaValue: n.a.\nDataColumns:\n- Format: '%s'\n  VariableName: AKTUELL\n")
	for _, c := range cols {
		sb.WriteString("- Format: '%v'\n  VariableName: " + c.name + "\n")
		if c.i1 >= 0 {
			sb.WriteString(fmt.Sprintf("  VarIndex1: %d\n", c.i1))
		}
		if c.i2 >= 0 {
			sb.WriteString(fmt.Sprintf("  VarIndex2: %d\n", c.i2))
		}
	}
	if err := os.WriteFile(filepath.Join(project, "dailyout_conf.yml"), []byte(sb.String()), 0o644); err != nil {
		t.Fatal(err)
	}

	// first line of examples/bd_muencheberg_batch.txt, other soil id, 3 years instead of 31
	result := filepath.Join(root, "RESULT")
	args := []string{"project=bulk", "WeatherFolder=historical", "soilId=050", "fcode=109_120", "plotNr=10001",
		"Altitude=73", "Latitude=52.6732", "poligonID=29872", "resultfolder=" + result, "EndDate=12311982"}
	session := NewHermesSession()
	out := make(chan *RunReturn, 1)
	logout := make(chan string, 100)
	done := make(chan bool)
	go func() {
		for range logout {
		}
		done <- true
	}()
	session.Run(root, args, "C06", out, logout)
	rr := <-out
	close(logout)
	<-done
	session.Close()
	if !rr.Success {
		t.Fatalf("the run on the peat profile did not succeed (the input is meant to be valid): %v", rr.Err)
	}

	files, _ := filepath.Glob(filepath.Join(result, "V*.csv"))
	if len(files) != 1 {
		t.Fatalf("expected one daily output file, got %v", files)
	}
	data, err := os.ReadFile(files[0])
	if err != nil {
		t.Fatal(err)
	}
	days, bad := 0, 0
	firstNonFinite, firstAbsurd := "", ""
	maxAbsT, maxNitrate := 0.0, 0.0
	for _, line := range strings.Split(strings.ReplaceAll(string(data), "\r", ""), "\n") {
		tok := strings.Split(line, ",")
		if len(tok) != len(cols)+1 {
			continue
		}
		days++
		for k, c := range cols {
			s := strings.TrimSpace(tok[k+1])
			v, err := strconv.ParseFloat(s, 64) // parses "+Inf", "-Inf", "NaN" as well
			if err != nil {
				t.Fatalf("%s: cannot parse %s[%d] = %q", tok[0], c.name, c.i1, s)
			}
			if math.IsNaN(v) || math.IsInf(v, 0) {
				bad++
				if firstNonFinite == "" {
					firstNonFinite = fmt.Sprintf("%s: %s[%d] = %v", tok[0], c.name, c.i1, v)
				}
				continue
			}
			switch c.name {
			case "TD", "AvgTSoil":
				if math.Abs(v) > maxAbsT {
					maxAbsT = math.Abs(v)
				}
				// air temperature of the weather file stays within -25 .. +38 degC
				if math.Abs(v) > 60 {
					bad++
					if firstAbsurd == "" {
						firstAbsurd = fmt.Sprintf("%s: %s[%d] = %.6g degC", tok[0], c.name, c.i1, v)
					}
				}
			case "C1":
				if v > maxNitrate {
					maxNitrate = v
				}
			}
		}
	}
	if days < 800 {
		t.Fatalf("only %d daily rows read", days)
	}
	t.Logf("days=%d  max |finite soil temperature| = %.4g degC  max nitrate in layer 1 = %.4g kg N/ha", days, maxAbsT, maxNitrate)
	if firstAbsurd != "" {
		t.Errorf("soil temperature leaves every physical range: first at %s", firstAbsurd)
	}
	if firstNonFinite != "" {
		t.Errorf("non-finite value in state / daily output: first at %s", firstNonFinite)
	}
	if bad > 0 {
		t.Errorf("C06 violated: %d soil-temperature values of the daily output are absurd or non-finite", bad)
	}
}
