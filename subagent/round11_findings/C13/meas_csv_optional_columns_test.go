package hermes

// Demonstration for property C13 ("alternative input formats of the same content give
// identical results"): measured initial values written as text or as CSV.
//
// The text reader (ExtractMeasuredDataTxt) accepts the short 9-column layout
//   Plot_ID Date Nm03 Nm36 Nm69 M W0_3 W3_6 W6_9
// (this is the layout of the shipped examples/project/MUN/init_MUN.txt) and then uses 0 for the
// six optional deep-layer values (Nmin 9-12/12-15/15-20 dm, water 9-12/12-15/15-20 dm).
// The CSV reader (ExtractMeasuredDataCSV) given the very same table with commas looks the six
// optional columns up in a header map; for a column that is not in the header the map returns
// index 0, i.e. the ID column. With InitSelection 3 (polygon number) or 4 (soil id) the ID is a
// number, so the plot number 10001 becomes "10001 kg N/ha in 9-12 dm" and "water content factor
// 10001" - silently.
//
// The test runs the shipped project ex3 (InitSelection 3, plots 10001/10002) twice, once with the
// 9-column text file and once with the same table as CSV, and requires byte-identical result files.

import (
	"io"
	"os"
	"path/filepath"
	"sort"
	"strings"
	"testing"
)

func c13CopyTree(t *testing.T, src, dst string) {
	t.Helper()
	err := filepath.Walk(src, func(p string, info os.FileInfo, err error) error {
		if err != nil {
			return err
		}
		rel, _ := filepath.Rel(src, p)
		target := filepath.Join(dst, rel)
		if info.IsDir() {
			return os.MkdirAll(target, 0755)
		}
		in, err := os.Open(p)
		if err != nil {
			return err
		}
		defer in.Close()
		out, err := os.Create(target)
		if err != nil {
			return err
		}
		defer out.Close()
		_, err = io.Copy(out, in)
		return err
	})
	if err != nil {
		t.Fatal(err)
	}
}

func c13CopyFile(t *testing.T, src, dst string) {
	t.Helper()
	b, err := os.ReadFile(src)
	if err != nil {
		t.Fatal(err)
	}
	if err := os.MkdirAll(filepath.Dir(dst), 0755); err != nil {
		t.Fatal(err)
	}
	if err := os.WriteFile(dst, b, 0644); err != nil {
		t.Fatal(err)
	}
}

// c13Run runs one batch line in-process and returns the content of all result files
func c13Run(t *testing.T, root, resName string, args ...string) map[string]string {
	t.Helper()
	res := filepath.Join(root, resName)
	all := append([]string{}, args...)
	all = append(all, "resultfolder="+res)
	session := NewHermesSession()
	out := make(chan *RunReturn, 1)
	logout := make(chan string, 100)
	done := make(chan struct{})
	go func() {
		for m := range logout {
			t.Log("hermes log: ", strings.TrimSpace(m))
		}
		close(done)
	}()
	session.Run(root, all, "C13", out, logout)
	r := <-out
	session.Close()
	close(logout)
	<-done
	if !r.Success {
		t.Fatalf("run %s failed: %v", resName, r.Err)
	}
	m := map[string]string{}
	files, _ := filepath.Glob(filepath.Join(res, "*"))
	for _, f := range files {
		b, err := os.ReadFile(f)
		if err != nil {
			t.Fatal(err)
		}
		m[filepath.Base(f)] = string(b)
	}
	if len(m) == 0 {
		t.Fatalf("run %s produced no result files", resName)
	}
	return m
}

func TestC13MeasurementCsvWithoutOptionalColumns(t *testing.T) {
	root := t.TempDir()
	// build the project from the shipped examples
	c13CopyTree(t, filepath.Join("..", "examples", "parameter"), filepath.Join(root, "parameter"))
	c13CopyTree(t, filepath.Join("..", "examples", "project", "ex3"), filepath.Join(root, "project", "ex3"))
	c13CopyFile(t, filepath.Join("..", "examples", "weather", "historical", "109_120.csv"), filepath.Join(root, "weather", "historical", "109_120.csv"))

	p := filepath.Join(root, "project", "ex3")
	// the same measured initial values, once as text, once as CSV; layout of examples/project/MUN/init_MUN.txt
	// (top 9 dm only), IDs = polygon numbers of poly_ex3.txt because ex3 uses InitSelection: 3
	rows := [][]string{
		{"Plot_ID", "Date", "Nm03", "Nm36", "Nm69", "M", "W0_3", "W3_6", "W6_9"},
		{"10001", "10011980", "0010", "0008", "0005", "1", "0.700", "0.660", "0.666"},
		{"10002", "10011980", "0005", "0004", "0003", "1", "0.700", "0.660", "0.666"},
	}
	var txt, csv strings.Builder
	for _, r := range rows {
		txt.WriteString(strings.Join(r, " ") + "\n")
		csv.WriteString(strings.Join(r, ",") + "\n")
	}
	txt.WriteString("end\n")
	if err := os.WriteFile(filepath.Join(p, "endit_ex3.txt"), []byte(txt.String()), 0644); err != nil {
		t.Fatal(err)
	}
	if err := os.WriteFile(filepath.Join(p, "endit_ex3.csv"), []byte(csv.String()), 0644); err != nil {
		t.Fatal(err)
	}

	// first line of examples/ex3_muencheberg_batch.txt
	args := []string{"project=ex3", "WeatherFolder=historical", "soilId=075", "fcode=109_120", "plotNr=10001", "Altitude=73", "Latitude=52.6732", "poligonID=29872"}
	asTxt := c13Run(t, root, "RESULT_TXT", append(args, "MeasurementFileFormat=txt")...)
	asCsv := c13Run(t, root, "RESULT_CSV", append(args, "MeasurementFileFormat=csv")...)

	if len(asTxt) != len(asCsv) {
		t.Errorf("number of result files differs: txt %d, csv %d", len(asTxt), len(asCsv))
	}
	names := []string{}
	for k := range asTxt {
		names = append(names, k)
	}
	sort.Strings(names)
	for _, k := range names {
		if asTxt[k] == asCsv[k] {
			continue
		}
		la, lb := strings.Split(asTxt[k], "\n"), strings.Split(asCsv[k], "\n")
		ndiff := 0
		first := -1
		for i := 0; i < len(la) && i < len(lb); i++ {
			if la[i] != lb[i] {
				ndiff++
				if first < 0 {
					first = i
				}
			}
		}
		if first < 0 {
			t.Errorf("result file %s differs in length: txt %d lines, csv %d lines", k, len(la), len(lb))
			continue
		}
		t.Errorf("result file %s differs between measurement file as txt and as csv (%d of %d lines), first at line %d:\n txt: %s\n csv: %s",
			k, ndiff, len(la), first+1, la[first], lb[first])
	}
}
