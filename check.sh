#!/bin/bash
# ./check.sh <property> <quick|thorough>    or    ./check.sh <property> --replay <dir>
# Rebuilds the harness (and what it needs) against /repo's current working tree with the
# verif hooks enabled, then runs the check. Exit: 0 held, 1 violation, 2 inconclusive.
set -u
cd "$(dirname "$0")"
export VERIF_DIR="$PWD"
. ./env.sh
PROP="${1:-}"; MODE="${2:-quick}"
if [ -z "$PROP" ]; then echo "usage: $0 <property> <quick|thorough>|--replay <dir>"; exit 2; fi
if ! ./build.sh "$PROP" > .build/build_$PROP.log 2>&1; then
  echo "INCONCLUSIVE: build of /repo with hooks failed (see .build/build_$PROP.log)"; tail -5 .build/build_$PROP.log; exit 2
fi
export VERIF_SCRATCH="${VERIF_SCRATCH:-$(mktemp -d /tmp/verif.XXXXXX)}"
trap 'rm -rf "$VERIF_SCRATCH"' EXIT
if [ "$MODE" = "--replay" ]; then
  ./.build/vmon replay "${3:-}"; exit $?
fi
./.build/vmon check "$PROP" "$MODE"
