package main

import (
	"fmt"
	"os"
	"path/filepath"
	"reflect"
	"sort"
	"strconv"
	"strings"

	"github.com/zalf-rpm/Hermes2Go/hermes"
)

// =====================================================================================
// C14: configuration precedence  batch line > project configuration file > default
// =====================================================================================
//
// Probe-and-abort: the real Run is called with generated key=value tokens and a generated
// config.yml; the config_read probe copies the effective Config and aborts the run with a
// sentinel panic (recovered by the harness). The real argument parsing, YAML reading and
// reflective override are exercised; the oracle is an independent overlay
// default <- file <- line computed from the generated values.

type cfgKey struct {
	Name string
	Kind string // int, float, string, switch, dateformat, gwfrom
}

func configKeys() []cfgKey {
	var ks []cfgKey
	t := reflect.TypeOf(hermes.Config{})
	for i := 0; i < t.NumField(); i++ {
		f := t.Field(i)
		k := cfgKey{Name: f.Name}
		switch {
		case f.Type.Name() == "DateFormat":
			k.Kind = "dateformat"
		case f.Type.Name() == "GroundWaterFrom":
			k.Kind = "gwfrom"
		case f.Type.Name() == "FeatureSwitch":
			k.Kind = "switch"
		case f.Type.Kind() == reflect.Int:
			k.Kind = "int"
		case f.Type.Kind() == reflect.Float64:
			k.Kind = "float"
		case f.Type.Kind() == reflect.String:
			k.Kind = "string"
		default:
			continue
		}
		ks = append(ks, k)
	}
	return ks
}

var switchSpellings = []string{"1", "0", "on", "off", "yes", "no", "true", "false"}
var switchTruth = map[string]bool{"1": true, "on": true, "yes": true, "true": true}
var gwNames = []string{"polygonfile", "soilfile", "gwTimeSeries"}

// cfgVal is a generated value in its three renderings
type cfgVal struct {
	FileText string      // as written to config.yml
	LineText string      // as written on the batch line
	Want     interface{} // int / float64 / string / bool
}

func genCfgVal(r *Rng, k cfgKey, short bool) cfgVal {
	switch k.Kind {
	case "int":
		v := r.Range(0, 40)
		switch k.Name {
		case "StartYear":
			v = r.Range(1902, 2090)
		case "DivideCentury":
			v = r.Range(0, 99)
		case "GroundWaterPhase":
			v = r.Range(-30, 365)
		}
		s := strconv.Itoa(v)
		// the batch line carries the number as text: zero-padded (the project's usual style for ids and dates: 012, 0008,
		// 02000), with an explicit plus sign, or plain
		ls := s
		switch r.Intn(5) {
		case 0:
			if v >= 0 {
				ls = strings.Repeat("0", r.Range(1, 3)) + s
			} else {
				ls = "-" + strings.Repeat("0", r.Range(1, 2)) + s[1:]
			}
		case 1:
			if v >= 0 && r.Bool(0.5) {
				ls = "+" + s
			}
		}
		return cfgVal{s, ls, v}
	case "float":
		v := float64(r.Range(-9000, 90000)) / 100
		if r.Bool(0.2) {
			v = float64(r.Range(0, 5))
		}
		s := fmtG(v)
		ls := s
		switch r.Intn(10) {
		case 0, 1:
			ls = strconv.FormatFloat(v, 'e', -1, 64)
		case 2: // zero-padded
			if v >= 0 {
				ls = strings.Repeat("0", r.Range(1, 2)) + s
			} else {
				ls = "-0" + s[1:]
			}
		case 3: // trailing zeros / bare decimal point
			if !strings.ContainsAny(s, ".e") {
				ls = s + pickS(r, []string{".", ".0", ".000"})
			} else if !strings.Contains(s, "e") {
				ls = s + "00"
			}
		case 4:
			if v >= 0 {
				ls = "+" + s
			}
		case 5: // no leading zero before the decimal point
			if strings.HasPrefix(s, "0.") {
				ls = s[1:]
			} else if strings.HasPrefix(s, "-0.") {
				ls = "-" + s[2:]
			}
		case 6:
			ls = strconv.FormatFloat(v, 'E', -1, 64)
		}
		return cfgVal{s, ls, v}
	case "switch":
		a, b := pickS(r, switchSpellings), ""
		// the line spelling is drawn independently but must carry the same truth value
		for {
			b = pickS(r, switchSpellings)
			if switchTruth[b] == switchTruth[a] {
				break
			}
		}
		return cfgVal{a, b, switchTruth[a]}
	case "dateformat":
		v := pickI(r, []int{1, 3})
		if short {
			v = pickI(r, []int{0, 2})
		}
		return cfgVal{dateFormatNames[v], strconv.Itoa(v), v}
	case "gwfrom":
		v := r.Intn(3)
		return cfgVal{gwNames[v], strconv.Itoa(v), v}
	default: // string
		var s string
		switch k.Name {
		case "EndDate":
			d, m, y := r.Range(1, 12), r.Range(1, 12), r.Range(1951, 2049)
			if short {
				s = fmt.Sprintf("%02d%02d%02d", d, m, y%100)
			} else {
				s = fmt.Sprintf("%02d%02d%04d", d, m, y)
			}
		case "AnnualOutputDate":
			s = fmt.Sprintf("%02d%02d", r.Range(1, 12), r.Range(1, 12))
		case "WeatherFile":
			s = pickS(r, []string{"MET_%s.", "%s.csv", "w_%s.txt", "%s_daily.w6d"})
		case "WeatherRootFolder":
			s = pickS(r, []string{"./weather/", "./wx", "/data/weather", "weather2", ""})
		case "WeatherFolder":
			s = pickS(r, []string{"hist", "scenA", "Weather", "x1", "", "scen=2"})
		case "ResultFileExt":
			s = pickS(r, []string{"csv", "RES", "txt", "out", "dat", ""})
		default:
			s = pickS(r, []string{"abc", "soil2", "txt", "csv", "yml", "poly_b", "x-1", "Q", "--------", "file.name", "scen=2", "a=b=c"}) // a value may contain '=' itself
		}
		q := "\"" + s + "\""
		return cfgVal{q, s, s}
	}
}

type cfgCase struct {
	File    map[string]cfgVal
	Line    map[string]cfgVal
	NoFile  bool
	Unknown []string // unknown key=value tokens on the line
	Short   bool
	Order   []string // first argument order
	Order2  []string // permuted order
}

func genCfgCase(r *Rng, keys []cfgKey) *cfgCase {
	c := &cfgCase{File: map[string]cfgVal{}, Line: map[string]cfgVal{}}
	c.Short = r.Bool(0.4)
	c.NoFile = !c.Short && r.Bool(0.05)
	pf, pl := r.F(), r.F()
	if r.Bool(0.1) {
		pf = 1
	}
	if r.Bool(0.1) {
		pl = 1
	}
	if r.Bool(0.1) {
		pl = 0
	}
	for _, k := range keys {
		if !c.NoFile && r.Bool(pf) {
			c.File[k.Name] = genCfgVal(r, k, c.Short)
		}
		if r.Bool(pl) {
			c.Line[k.Name] = genCfgVal(r, k, c.Short)
		}
	}
	_, dfF := c.File["Dateformat"]
	_, dfL := c.Line["Dateformat"]
	need := []string{}
	if c.Short {
		// the defaults are a long format with an 8 character end date: both must be overridden somewhere
		need = []string{"Dateformat", "EndDate"}
	} else if dfF || dfL {
		// the default end date 31122010 is not a date in the month-first format
		need = []string{"EndDate"}
	}
	{
		for _, name := range need {
			_, inF := c.File[name]
			_, inL := c.Line[name]
			if !inF && !inL {
				k := cfgKey{Name: name, Kind: map[string]string{"Dateformat": "dateformat", "EndDate": "string"}[name]}
				if r.Bool(0.5) && !c.NoFile {
					c.File[name] = genCfgVal(r, k, c.Short)
				} else {
					c.Line[name] = genCfgVal(r, k, c.Short)
				}
			}
		}
	}
	// a quarter of the lines also carry tokens that are arguments but no configuration keys: a crop calibration (CropFile= with
	// c_ parameters), the soil / groundwater id, a file extension - whatever the run does with them, the configuration keys of
	// the same line keep their values (CropFile is a prefix of the configuration key CropFileFormat, c_ of nothing)
	if r.Bool(0.25) {
		c.Unknown = append(c.Unknown, "CropFile="+pickS(r, []string{"PARAM.WW", "PARAM.SM.yml", "PARAM.ZR"}))
		for _, t := range []string{"c_MAXAMAX=44.5", "c_TSUM_2=300", "c_YIFAK=0.8", "c_KC_1=0.9"} {
			if r.Bool(0.5) {
				c.Unknown = append(c.Unknown, t)
			}
		}
	}
	if r.Bool(0.15) {
		c.Unknown = append(c.Unknown, pickS(r, []string{"soilId=077", "gwId=G1", "fcode=W9"}))
	}
	// tokens that are not key=value at all (no '=' or more than one) are not arguments: they are skipped wherever they stand
	for i, n := 0, r.Range(0, 2); i < n; i++ {
		c.Unknown = append(c.Unknown, pickS(r, []string{"verbose", "-x", "note=a=b", "Latitude", "=", "x=y=z"}))
	}
	for i, n := 0, r.Range(0, 3); i < n; i++ {
		c.Unknown = append(c.Unknown, pickS(r, []string{"NoSuchKey", "dateformat", "ETPOT", "Latitude2", "endDate", "Config", "x"})+strconv.Itoa(i)+"="+pickS(r, []string{"1", "abc", "3.5", "on"}))
	}
	return c
}

func (c *cfgCase) configYAML(r *Rng, keys []cfgKey) string {
	var b strings.Builder
	names := make([]string, 0, len(c.File))
	for _, k := range keys {
		if _, ok := c.File[k.Name]; ok {
			names = append(names, k.Name)
		}
	}
	// file order is random too
	for i := len(names) - 1; i > 0; i-- {
		j := r.Intn(i + 1)
		names[i], names[j] = names[j], names[i]
	}
	for i, n := range names {
		fmt.Fprintf(&b, "%s: %s\n", n, c.File[n].FileText)
		if i == len(names)/2 {
			b.WriteString("SomeUnknownKeyInFile: 17\n")
		}
	}
	if len(names) == 0 {
		b.WriteString("SomeUnknownKeyInFile: 17\n")
	}
	return b.String()
}

func (c *cfgCase) expected(root string) map[string]interface{} {
	def := hermes.NewDefaultConfig()
	exp := map[string]interface{}{}
	v := reflect.ValueOf(def)
	t := v.Type()
	for i := 0; i < t.NumField(); i++ {
		f := v.Field(i)
		switch f.Kind() {
		case reflect.Int:
			exp[t.Field(i).Name] = int(f.Int())
		case reflect.Float64:
			exp[t.Field(i).Name] = f.Float()
		case reflect.String:
			exp[t.Field(i).Name] = f.String()
		case reflect.Bool:
			exp[t.Field(i).Name] = f.Bool()
		}
	}
	for k, x := range c.File {
		exp[k] = x.Want
	}
	for k, x := range c.Line {
		exp[k] = x.Want
	}
	// documented normalisations of the reader
	if exp["WeatherFolder"].(string) == "" {
		exp["WeatherFolder"] = "Weather"
	}
	wr := exp["WeatherRootFolder"].(string)
	if wr == "" {
		exp["WeatherRootFolder"] = root
	} else if strings.HasPrefix(wr, "./") {
		exp["WeatherRootFolder"] = root + strings.TrimPrefix(wr, ".")
	}
	if exp["ResultFileExt"].(string) == "" {
		if exp["ResultFileFormat"].(int) == 1 {
			exp["ResultFileExt"] = "csv"
		} else {
			exp["ResultFileExt"] = "RES"
		}
	}
	return exp
}

func (c *cfgCase) args(order []string) []string {
	return append([]string{}, order...)
}

func cfgToMap(cfg *hermes.Config) map[string]interface{} {
	out := map[string]interface{}{}
	v := reflect.ValueOf(*cfg)
	t := v.Type()
	for i := 0; i < t.NumField(); i++ {
		f := v.Field(i)
		switch f.Kind() {
		case reflect.Int:
			out[t.Field(i).Name] = int(f.Int())
		case reflect.Float64:
			out[t.Field(i).Name] = f.Float()
		case reflect.String:
			out[t.Field(i).Name] = f.String()
		case reflect.Bool:
			out[t.Field(i).Name] = f.Bool()
		}
	}
	return out
}

// probeConfig runs the real Run until the configuration has been read and returns the effective configuration.
func probeConfig(root string, args []string) (map[string]interface{}, string) {
	var got map[string]interface{}
	mon := &monCfgProbe{out: &got}
	sc := &Scenario{Prop: "C14"}
	rc := &RunCtx{Sc: sc, Root: root, ResultDir: filepath.Join(root, "out"), Res: &CaseResult{Prop: "C14"}}
	runWithMonitors(rc, root, args, []Monitor{mon})
	if got == nil {
		return nil, rc.Res.Status + ": " + rc.Res.Err
	}
	return got, ""
}

type monCfgProbe struct{ out *map[string]interface{} }

func (m *monCfgProbe) Event(ev *hermes.VerifEvent, rc *RunCtx) {
	if ev.Site == "config_read" && ev.Cfg != nil {
		*m.out = cfgToMap(ev.Cfg)
		panic(abortRun{"config probed"})
	}
}
func (m *monCfgProbe) Finish(rc *RunCtx) {}

const c14SubCases = 40

func runC14Case(tier string, seed uint64, idx int, keepDir string) *CaseResult {
	if idx%8 == 7 {
		return runC14FullRun(tier, seed, idx, keepDir)
	}
	res := &CaseResult{Prop: "C14", Seed: seed, Index: idx, Status: "ok", FnShard: true, Cov: map[string]int64{}}
	r := NewRng(mix(mix(seed, uint64(idx)), 1414))
	keys := configKeys()
	violate := func(sig, msg string) {
		if res.NViol == nil {
			res.NViol = map[string]int{}
		}
		res.NViol["C14|"+sig]++
		if res.NViol["C14|"+sig] <= maxViolPerSig {
			res.Violations = append(res.Violations, Violation{Prop: "C14", Sig: sig, Msg: msg})
		}
	}
	for sub := 0; sub < c14SubCases; sub++ {
		c := genCfgCase(r, keys)
		root := keepDir
		var err error
		if root == "" {
			root, err = os.MkdirTemp(scratchBase, "cfg")
			if err != nil {
				res.Status = "skipped"
				res.Err = err.Error()
				return res
			}
		} else {
			root = filepath.Join(keepDir, fmt.Sprintf("sub%d", sub))
		}
		proj := filepath.Join(root, "project", "cp")
		os.MkdirAll(proj, 0755)
		if !c.NoFile {
			os.WriteFile(filepath.Join(proj, "config.yml"), []byte(c.configYAML(r, keys)), 0644)
		}
		// argument tokens
		toks := []string{"project=cp", "plotNr=1", "poligonID=P1", "resultfolder=" + filepath.Join(root, "out")}
		for _, k := range keys {
			if x, ok := c.Line[k.Name]; ok {
				toks = append(toks, k.Name+"="+x.LineText)
			}
		}
		toks = append(toks, c.Unknown...)
		perm := func() []string {
			p := append([]string{}, toks...)
			for i := len(p) - 1; i > 0; i-- {
				j := r.Intn(i + 1)
				p[i], p[j] = p[j], p[i]
			}
			return p
		}
		c.Order, c.Order2 = perm(), perm()
		exp := c.expected(root)
		got1, e1 := probeConfig(root, c.Order)
		res.Evals++
		desc := func() string {
			var fl, ll []string
			for k, x := range c.File {
				fl = append(fl, k+": "+x.FileText)
			}
			for k, x := range c.Line {
				ll = append(ll, k+"="+x.LineText)
			}
			sort.Strings(fl)
			sort.Strings(ll)
			return fmt.Sprintf("file{%s} line{%s} unknown%v nofile=%v", strings.Join(fl, "; "), strings.Join(ll, " "), c.Unknown, c.NoFile)
		}
		if got1 == nil {
			violate("config_not_read", fmt.Sprintf("the configuration was not read (%s) for %s", e1, desc()))
		} else {
			for _, k := range keys {
				if !reflect.DeepEqual(got1[k.Name], exp[k.Name]) {
					src := "default"
					if _, ok := c.File[k.Name]; ok {
						src = "file"
					}
					if _, ok := c.Line[k.Name]; ok {
						src = "line"
					}
					violate("precedence_"+k.Kind+"_"+src, fmt.Sprintf("key %s (%s): effective value %v, expected %v from the %s; %s", k.Name, k.Kind, got1[k.Name], exp[k.Name], src, desc()))
				}
				res.Cov["key_checks"]++
			}
			got2, _ := probeConfig(root, c.Order2)
			if got2 == nil || !reflect.DeepEqual(got1, got2) {
				violate("argument_order_dependence", fmt.Sprintf("argument order %v and %v give different configurations; %s", c.Order, c.Order2, desc()))
			}
			res.Cov["order_permutations"]++
		}
		nl, nf, both := 0, 0, 0
		for _, k := range keys {
			_, l := c.Line[k.Name]
			_, f := c.File[k.Name]
			if l {
				nl++
			}
			if f {
				nf++
			}
			if l && f {
				both++
			}
			if !l && !f {
				res.Cov["keys_from_default"]++
			}
		}
		res.Cov["keys_on_line"] += int64(nl)
		res.Cov["keys_in_file"] += int64(nf)
		res.Cov["keys_in_both"] += int64(both)
		res.Cov["unknown_keys_on_line"] += int64(len(c.Unknown))
		if c.NoFile {
			res.Cov["cases_without_config_file"]++
		}
		if c.Short {
			res.Cov["cases_short_date_format"]++
		}
		if both > 0 {
			res.NonTrivN++
		}
		if sub == 0 && idx < 3 {
			res.Sample = map[string]interface{}{"config_case": desc(), "argument_order": c.Order}
		}
		if keepDir == "" {
			os.RemoveAll(root)
		}
	}
	return res
}

// ---- full runs: the overridden values must be the ones the model behaves by ----

type monC14Run struct {
	want map[string]float64
	ref  *Scenario // the same project with the line values written into the configuration file and nothing on the line
}

func (m *monC14Run) Event(ev *hermes.VerifEvent, rc *RunCtx) {
	if ev.Site != "input_done" {
		return
	}
	g := ev.G
	sc := rc.Sc
	chk := func(name string, got, want float64) {
		if got != want {
			rc.Violate("C14", "run_uses_other_value", fmt.Sprintf("the run uses %s = %v, the batch line says %v", name, got, want), 0, 0, nil)
		}
		rc.Cov("run_value_checks", 1)
	}
	chk("leaching depth", float64(g.OUTN), float64(sc.LeachDepth))
	chk("N deposition", g.DEPOS, sc.NDeposition)
	chk("ET method", float64(g.ETMETH), float64(sc.ETpot))
	chk("latitude", g.LAT, sc.Latitude)
	chk("fertilisation factor", g.DUNGSZEN, sc.Fertilizat/100)
	chk("kc bare soil", g.FKB, sc.KcBare)
}

func (m *monC14Run) Finish(rc *RunCtx) {
	sc := rc.Sc
	if rc.Res.Status != "ok" {
		m.compareWithReference(rc)
		return
	}
	ext := sc.ResultExt
	if ext == "" {
		ext = "RES"
		if sc.ResultFormat == 1 {
			ext = "csv"
		}
	}
	for _, pre := range []string{"V", "Y", "C"} {
		p := filepath.Join(rc.ResultDir, pre+sc.Polygon+sc.PlotNr+"."+ext)
		if _, err := os.Stat(p); err != nil {
			rc.Violate("C14", "result_file_extension", fmt.Sprintf("result file %s does not exist: the extension / format given on the batch line was not used", filepath.Base(p)), 0, 0, nil)
		}
	}
	// the daily file ends on the end date of the batch line and uses its interval and format
	recs, err := readDailyRecords(rc)
	if err == nil && len(recs) > 0 {
		last := recs[len(recs)-1]
		wantLast := sc.End.Zeit()
		for wantLast%sc.OutInterval != 0 {
			wantLast--
		}
		if last.zeit != wantLast {
			rc.Violate("C14", "end_date_not_from_line", fmt.Sprintf("last daily record is %s, the end date on the batch line is %s (interval %d)", DateOfZeit(last.zeit), sc.End, sc.OutInterval), 0, 0, nil)
		}
		for _, rcd := range recs {
			if rcd.zeit%sc.OutInterval != 0 {
				rc.Violate("C14", "interval_not_from_line", fmt.Sprintf("daily record on %s although the interval on the batch line is %d", DateOfZeit(rcd.zeit), sc.OutInterval), 0, 0, nil)
				break
			}
		}
		rc.Cov("full_runs_checked", 1)
	}
	rc.Res.NonTrivial = rc.Res.Days > 30
	m.compareWithReference(rc)
}

// compareWithReference: a value on the batch line must act exactly like the same value in the configuration file. The project is
// run a second time with the line values written into config.yml (no decoys, no key=value tokens, no fileExtension=: the input
// files carry their standard names, so that this reference does not depend on how a format value and a file name interact): both runs must end the same
// way and write byte-identical result files. A line value that is parsed into the effective configuration but not used by the
// code that consumes it (a reader choosing its format from something else) shows up here, whatever the key.
func (m *monC14Run) compareWithReference(rc *RunCtx) {
	if m.ref == nil || (rc.Res.Status != "ok" && rc.Res.Status != "run_error") {
		return
	}
	refRoot, err := os.MkdirTemp(scratchBase, "c14ref")
	if err != nil {
		return
	}
	defer os.RemoveAll(refRoot)
	b := runPlain(m.ref, refRoot, nil)
	if b.Status != "ok" {
		return // the project itself does not run: nothing to compare the line values with
	}
	a := &plainRun{Status: rc.Res.Status, Err: rc.Res.Err, Files: map[string][]byte{}}
	entries, _ := os.ReadDir(rc.ResultDir)
	for _, e := range entries {
		if !e.IsDir() {
			c, _ := os.ReadFile(filepath.Join(rc.ResultDir, e.Name()))
			a.Files[e.Name()] = c
		}
	}
	rc.Cov("full_runs_compared_with_values_in_file", 1)
	if ok, why := compareRuns(a, b, nil); !ok {
		rc.Violate("C14", "line_values_act_differently_from_file_values", fmt.Sprintf("line %v over decoys in the file vs the same values in the file: %s", rc.Sc.ExtraArgs, why), 0, 0, nil)
	}
}

func runC14FullRun(tier string, seed uint64, idx int, keepDir string) *CaseResult {
	r := NewRng(mix(mix(seed, uint64(idx)), 141414))
	p := defaultProfile()
	p.Inject = 0
	p.Years = [2]int{1, 2}
	p.OutIntervals = []int{1, 2, 7}
	sc := genWithProfile("C14", seed, idx, r, p)
	// every overridden key gets a different (decoy) value in the file, the true one goes on the batch line
	sc.FileOverrides = map[string]string{}
	add := func(key, line, decoy string) {
		sc.ExtraArgs = append(sc.ExtraArgs, key+"="+line)
		sc.FileOverrides[key] = decoy
	}
	add("EndDate", FmtDate(sc.End, sc.DateFormat), "\""+FmtDate(sc.End.AddDays(-r.Range(20, 100)), sc.DateFormat)+"\"")
	add("OutputIntervall", strconv.Itoa(sc.OutInterval), strconv.Itoa(sc.OutInterval+3))
	add("ResultFileFormat", strconv.Itoa(sc.ResultFormat), strconv.Itoa(1-sc.ResultFormat))
	if sc.ResultExt != "" {
		add("ResultFileExt", sc.ResultExt, "\"zzz\"")
	}
	add("LeachingDepth", strconv.Itoa(sc.LeachDepth), strconv.Itoa(maxi(1, sc.LeachDepth-1)))
	add("NDeposition", fmtG(sc.NDeposition), fmtG(sc.NDeposition+7))
	add("ETpot", strconv.Itoa(sc.ETpot), strconv.Itoa(3))
	add("Latitude", fmtG(sc.Latitude), fmtG(sc.Latitude/2+1))
	add("Fertilization", fmtG(sc.Fertilizat), fmtG(sc.Fertilizat+10))
	add("KcFactorBareSoil", fmtG(sc.KcBare), fmtG(sc.KcBare/2))
	// the input formats: the format named on the line is the one the files are in, the file names the other one; half of the
	// runs also give fileExtension= (rotation, polygon and automatic-management files carry that extension, which says nothing
	// about their format - also when it reads "csv" or "txt")
	rf := NewRng(mix(mix(seed, uint64(idx)), 141415))
	if rf.Bool(0.5) {
		sc.FileExt = pickS(rf, []string{"v2", "csv", "txt", "alt", "v2csv"})
	}
	two := func(b bool, x, y string) (string, string) {
		if b {
			return x, "\"" + y + "\""
		}
		return y, "\"" + x + "\""
	}
	if rf.Bool(0.7) {
		l, d := two(sc.RotCSV, "csv", "txt")
		add("CropFileFormat", l, d)
	}
	if rf.Bool(0.5) {
		l, d := two(sc.Soil.CSV, "csv", "txt")
		add("SoilFileExtension", l, d)
	}
	if rf.Bool(0.5) {
		l, d := two(sc.CropParamYml, "yml", "txt")
		add("CropParameterFormat", l, d)
	}
	if rf.Bool(0.5) {
		l, d := two(sc.MeasCSV, "csv", "txt")
		add("MeasurementFileFormat", l, d)
	}
	if rf.Bool(0.5) {
		names := []string{"polygonfile", "soilfile", "gwTimeSeries"}
		add("GroundWaterFrom", strconv.Itoa(sc.GWMode), names[(sc.GWMode+1+rf.Intn(2))%3]) // the line takes the number of the source
	}
	ref := cloneScenario(sc)
	ref.ExtraArgs, ref.FileOverrides = nil, nil
	ref.FileExt = "" // and its input files under their standard names: fileExtension= only renames the files that are read
	// random argument order
	for i := len(sc.ExtraArgs) - 1; i > 0; i-- {
		j := r.Intn(i + 1)
		sc.ExtraArgs[i], sc.ExtraArgs[j] = sc.ExtraArgs[j], sc.ExtraArgs[i]
	}
	res := runScenario(sc, []Monitor{&monC14Run{ref: ref}}, keepDir)
	res.Sample = map[string]interface{}{"full_run_line_overrides": sc.ExtraArgs, "file_decoys": sc.FileOverrides}
	return res
}

func init() {
	caseRunners["C14"] = runC14Case
	otherChecks["C14"] = func(tier string, seed uint64) int {
		spec := checkSpec{Prop: "C14", Level: "exploration", NQuick: 800, NThorough: 16000,
			Rule:   fmt.Sprintf("7 of 8 case indices: %d generated configuration cases each (random subsets of all %d scalar keys in the file and/or on the line, values of every kind incl. the eight on/off spellings, unknown keys, missing file, two random argument orders), effective configuration read back from the real reader by probe-and-abort and compared key by key with default<-file<-line; 1 of 8: a full run whose line values differ from decoy file values, checked in the run state and the result files, the input-format keys (rotation, soil, crop-parameter and measurement file format, groundwater source) among them and half of the runs with fileExtension=; every full run is repeated with the line values written into the file, nothing on the line and the input files under their standard names: same end, byte-identical result files. evaluations = configuration cases + full runs; non-trivial = cases with at least one key present in both file and line, full runs > 30 days", c14SubCases, len(configKeys())),
			Floors: []string{"key_checks", "keys_in_both", "keys_from_default", "unknown_keys_on_line", "cases_without_config_file", "cases_short_date_format", "order_permutations", "full_runs_checked", "run_value_checks", "full_runs_compared_with_values_in_file"}}
		return runSimCheck(spec, tier, seed)
	}
}
