package hermes

// C01 - soil water mass balance, demonstration of a violation on the unchanged code.
//
// Input: shipped example project ex1 (maize/soybean rotation, weather 109_120), soil 002 of
// examples/project/ex1/soil_ex1.txt with ONE field changed: the constant groundwater level
// (column "GW", GroundWaterFrom: soilfile) is 05 dm (and 01 dm in the second case) instead of 99.
//
// The test reads the daily output (public output configuration, all layers, full precision)
// and checks on every day (except the first day = measurement day)
//
//   d(storage) = rain + irrigation - actual evaporation - root uptake
//                - (percolation - capillary/groundwater supply) - drain flow
//
// with the terms the model itself reports (WG, REGENdaily, EffectiveIRRIG, ETA, TRAY, SICKER,
// CAPSUM, DRAISUM). LeachingDepth is set to the profile depth (20 dm) so that SICKER/CAPSUM are
// the fluxes through the lower profile boundary.

import (
	"encoding/csv"
	"fmt"
	"io"
	"math"
	"os"
	"path/filepath"
	"strconv"
	"strings"
	"testing"
)

var c01fCols = func() []string {
	c := []string{"AKTUELL", "SICKER", "CAPSUM", "DRAISUM", "TRAY", "ETA", "REGENdaily", "EffectiveIRRIG", "FLUSS0", "GRW"}
	for i := 0; i < 20; i++ {
		c = append(c, fmt.Sprintf("WG_%d", i))
	}
	return c
}()

func c01fDailyConf() string {
	var sb strings.Builder
	sb.WriteString("FillCharacter: ' '\nSeperatorCharacter: ','\nNaValue: n.a.\nDataColumns:\n")
	for _, c := range c01fCols {
		switch {
		case c == "AKTUELL":
			sb.WriteString("- Format: '%s'\n  DataAlignment: left\n  Width: 10\n  VariableName: AKTUELL\n")
		case strings.HasPrefix(c, "WG_"):
			sb.WriteString("- Format: '%.17g'\n  DataAlignment: left\n  Width: 10\n  VariableName: WG\n  VarIndex1: 1\n  VarIndex2: " + c[3:] + "\n")
		default:
			sb.WriteString("- Format: '%.17g'\n  DataAlignment: left\n  Width: 10\n  VariableName: " + c + "\n")
		}
	}
	return sb.String()
}

func c01fCopy(t *testing.T, src, dst string) {
	t.Helper()
	err := filepath.Walk(src, func(p string, info os.FileInfo, err error) error {
		if err != nil {
			return err
		}
		rel, _ := filepath.Rel(src, p)
		target := filepath.Join(dst, rel)
		if info.IsDir() {
			return os.MkdirAll(target, 0o755)
		}
		in, err := os.Open(p)
		if err != nil {
			return err
		}
		defer in.Close()
		if err := os.MkdirAll(filepath.Dir(target), 0o755); err != nil {
			return err
		}
		out, err := os.Create(target)
		if err != nil {
			return err
		}
		defer out.Close()
		_, err = io.Copy(out, in)
		return err
	})
	if err != nil {
		t.Fatal(err)
	}
}

// c01fProject builds the project in a temp dir from the shipped examples; gw = groundwater level (dm) written into the soil line
func c01fProject(t *testing.T, soil string, gw int) string {
	t.Helper()
	root := t.TempDir()
	ex, err := filepath.Abs(filepath.Join("..", "examples"))
	if err != nil {
		t.Fatal(err)
	}
	c01fCopy(t, filepath.Join(ex, "parameter"), filepath.Join(root, "parameter"))
	c01fCopy(t, filepath.Join(ex, "weather", "historical", "109_120.csv"), filepath.Join(root, "weather", "historical", "109_120.csv"))
	c01fCopy(t, filepath.Join(ex, "project", "ex1"), filepath.Join(root, "project", "ex1"))
	prj := filepath.Join(root, "project", "ex1")
	if err := os.WriteFile(filepath.Join(prj, "dailyout_conf.yml"), []byte(c01fDailyConf()), 0o644); err != nil {
		t.Fatal(err)
	}
	// set the groundwater column of the soil (characters 71-72 of the first horizon line)
	soilFile := filepath.Join(prj, "soil_ex1.txt")
	b, err := os.ReadFile(soilFile)
	if err != nil {
		t.Fatal(err)
	}
	lines := strings.Split(string(b), "\n")
	done := false
	for i, l := range lines {
		if strings.HasPrefix(l, soil+" ") && len(l) >= 72 && strings.TrimSpace(l[32:37]) != "" { // first horizon line of the soil
			if l[70:72] != "99" {
				t.Fatalf("unexpected soil line %q", l)
			}
			lines[i] = l[:70] + fmt.Sprintf("%02d", gw) + l[72:]
			done = true
		}
	}
	if !done {
		t.Fatalf("soil %s not found in soil_ex1.txt", soil)
	}
	if err := os.WriteFile(soilFile, []byte(strings.Join(lines, "\n")), 0o644); err != nil {
		t.Fatal(err)
	}
	return root
}

const c01fSoil = "006" // shipped soil 006: SL2, 2 horizons, 20 dm, effective root depth 13 dm

type c01fDay struct {
	date string
	v    map[string]float64
}

func c01fRun(t *testing.T, root, soil string) []c01fDay {
	t.Helper()
	res := filepath.Join(root, "RESULT_c01")
	args := []string{"project=ex1", "plotNr=10001", "soilId=" + soil, "fcode=109_120",
		"resultfolder=" + res, "ResultFileFormat=1", "ResultFileExt=csv", "OutputIntervall=1",
		"LeachingDepth=20", "AutoIrrigation=0", "EndDate=12311986"}
	session := NewHermesSession()
	out := make(chan *RunReturn, 1)
	logout := make(chan string, 100)
	go func() {
		for range logout {
		}
	}()
	session.Run(root, args, "c01", out, logout)
	r := <-out
	session.Close()
	if !r.Success {
		t.Fatalf("run failed: %v", r.Err)
	}
	f, err := os.Open(filepath.Join(res, "V10001.csv"))
	if err != nil {
		t.Fatal(err)
	}
	defer f.Close()
	rd := csv.NewReader(f)
	rd.FieldsPerRecord = -1
	recs, err := rd.ReadAll()
	if err != nil {
		t.Fatal(err)
	}
	var days []c01fDay
	for _, rec := range recs {
		if len(rec) < len(c01fCols) {
			continue
		}
		d := c01fDay{date: strings.TrimSpace(rec[0]), v: map[string]float64{}}
		ok := true
		for i := 1; i < len(c01fCols); i++ {
			x, err := strconv.ParseFloat(strings.TrimSpace(rec[i]), 64)
			if err != nil {
				ok = false
				break
			}
			d.v[c01fCols[i]] = x
		}
		if ok {
			days = append(days, d)
		}
	}
	if len(days) < 2000 {
		t.Fatalf("only %d daily records", len(days))
	}
	return days
}

type c01fResult struct {
	checked, bad      int
	badWithoutUptake  int
	sumResidMM        float64
	first             []string
	firstWithoutUptke []string
}

// c01fBalance checks the daily balance (all terms in cm of water; SICKER/CAPSUM/DRAISUM are reported in mm)
func c01fBalance(days []c01fDay) c01fResult {
	var r c01fResult
	storage := func(d c01fDay) float64 {
		s := 0.0
		for i := 0; i < 20; i++ {
			s += d.v[fmt.Sprintf("WG_%d", i)] * 10 // 10 cm layers
		}
		return s
	}
	const tol = 1e-9 // cm
	for k := 1; k < len(days); k++ {
		p, c := days[k-1], days[k]
		dSick := c.v["SICKER"] - p.v["SICKER"]
		dCap := c.v["CAPSUM"] - p.v["CAPSUM"]
		dTra := c.v["TRAY"] - p.v["TRAY"]
		if strings.HasPrefix(p.date, "10.31.") {
			// the annual output day (AnnualOutputDate 1031) resets the yearly sums after the daily output was written
			dSick, dCap, dTra = c.v["SICKER"], c.v["CAPSUM"], c.v["TRAY"]
		}
		dDrain := c.v["DRAISUM"] - p.v["DRAISUM"]
		surface := c.v["REGENdaily"] + c.v["EffectiveIRRIG"] - c.v["ETA"]
		dS := storage(c) - storage(p)
		resid := dS - (surface - dTra - (dSick+dCap)/10 - dDrain/10)
		r.checked++
		if math.Abs(resid) > tol || math.IsNaN(resid) {
			r.bad++
			r.sumResidMM += resid * 10
			line := fmt.Sprintf("%s: dStorage=%+.5f cm  surface=%+.5f  uptake=%.5f  percolation=%.5f mm  capillary/gw supply=%.5f mm  drain=%.5f mm  -> unexplained %+.5f mm",
				c.date, dS, surface, dTra, dSick, -dCap, dDrain, resid*10)
			if len(r.first) < 5 {
				r.first = append(r.first, line)
			}
			if dTra == 0 {
				r.badWithoutUptake++
				if len(r.firstWithoutUptke) < 5 {
					r.firstWithoutUptke = append(r.firstWithoutUptke, line)
				}
			}
		}
	}
	return r
}

func TestC01GroundwaterUptakeBalance(t *testing.T) {
	// control: the unchanged example soil (no groundwater, GW = 99): the balance closes to round-off
	t.Run("control_no_groundwater", func(t *testing.T) {
		r := c01fBalance(c01fRun(t, c01fProject(t, c01fSoil, 99), c01fSoil))
		t.Logf("days checked %d, days with open balance %d", r.checked, r.bad)
		if r.bad != 0 {
			t.Errorf("control does not close: %v", r.first)
		}
	})
	// constant groundwater 6 dm below the surface
	t.Run("groundwater_06dm", func(t *testing.T) {
		r := c01fBalance(c01fRun(t, c01fProject(t, c01fSoil, 6), c01fSoil))
		t.Logf("days checked %d, days with open balance %d, unexplained water in total %.1f mm", r.checked, r.bad, r.sumResidMM)
		if r.bad != 0 {
			t.Errorf("water balance is open on %d of %d days (sum %.1f mm): groundwater supply is reported that never enters the profile; first days:\n  %s",
				r.bad, r.checked, r.sumResidMM, strings.Join(r.first, "\n  "))
		}
	})
	// constant groundwater 1 dm below the surface: groundwater supply to the roots is reported even on days without any root uptake
	t.Run("groundwater_01dm", func(t *testing.T) {
		r := c01fBalance(c01fRun(t, c01fProject(t, c01fSoil, 1), c01fSoil))
		t.Logf("days checked %d, days with open balance %d (of these %d without any root uptake), unexplained water in total %.1f mm", r.checked, r.bad, r.badWithoutUptake, r.sumResidMM)
		if r.bad != 0 {
			t.Errorf("water balance is open on %d of %d days (sum %.1f mm); days with reported groundwater supply but zero root uptake: %d, e.g.\n  %s",
				r.bad, r.checked, r.sumResidMM, r.badWithoutUptake, strings.Join(r.firstWithoutUptke, "\n  "))
		}
	})
}
