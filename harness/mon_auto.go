package main

import (
	"fmt"
	"strconv"
	"strings"

	"github.com/zalf-rpm/Hermes2Go/hermes"
)

// =====================================================================================
// C16: crop rotation is followed; automatic management respects its windows
// =====================================================================================

type monC16 struct {
	dsummPre   float64
	irrEvents  int
	autoNSteps int
}

func (m *monC16) Event(ev *hermes.VerifEvent, rc *RunCtx) {
	g := ev.G
	sc := rc.Sc
	switch ev.Site {
	case "pre_evatra":
		if !sc.AutoIrr || g.EffectiveIRRIG == 0 {
			return
		}
		a := g.AKF.Index
		if a < 1 || a >= len(sc.Rotation) {
			rc.Violate("C16", "irrigation_without_rotation_entry", fmt.Sprintf("%s: automatic irrigation of %.4g cm while no rotation entry is current (index %d)", DateOfZeit(ev.Zeit), g.EffectiveIRRIG, a), ev.Zeit, 0, nil)
			return
		}
		row := sc.AutoRows[sc.Rotation[a].Crop]
		if row == nil {
			return
		}
		stage := g.INTWICK.Num
		if !(g.SAAT[a] > 0 && ev.Zeit > g.SAAT[a]) {
			rc.Violate("C16", "irrigation_without_crop", fmt.Sprintf("%s: automatic irrigation of %.4g cm although %s has not been sown", DateOfZeit(ev.Zeit), g.EffectiveIRRIG, row.Crop), ev.Zeit, 0, nil)
		}
		if stage < float64(row.IrrSt1) || stage >= float64(row.IrrSt2)+1 {
			rc.Violate("C16", "irrigation_outside_stage_window", fmt.Sprintf("%s: automatic irrigation of %s in development stage %v, configured stages %d..%d", DateOfZeit(ev.Zeit), row.Crop, stage, row.IrrSt1, row.IrrSt2), ev.Zeit, 0, nil)
		}
		mm := g.EffectiveIRRIG * 10
		if mm > float64(row.IrrMax)+1e-9 || mm < 0 {
			rc.Violate("C16", "irrigation_above_daily_maximum", fmt.Sprintf("%s: automatic irrigation of %.6g mm, configured daily maximum %d mm", DateOfZeit(ev.Zeit), mm, row.IrrMax), ev.Zeit, 0, nil)
		}
		if mm >= float64(row.IrrMax)-1e-9 {
			rc.Cov("auto_irrigations_at_maximum", 1)
		}
		m.irrEvents++
		rc.Cov("auto_irrigations", 1)
	case "pre_nitro":
		m.dsummPre = g.DSUMM
	case "post_nitro":
		if sc.AutoFert {
			if g.DSUMM < m.dsummPre-1e-12 {
				rc.Violate("C16", "negative_automatic_n_application", fmt.Sprintf("%s: the applied-fertiliser sum decreased by %.9g under automatic fertilisation", DateOfZeit(ev.Zeit), m.dsummPre-g.DSUMM), ev.Zeit, 0, nil)
			}
			if g.DSUMM > m.dsummPre {
				m.autoNSteps++
			}
		}
	}
}

func (m *monC16) Finish(rc *RunCtx) {
	sc := rc.Sc
	runErrorViolation(rc, "C16")
	if rc.Res.Status != "ok" {
		return
	}
	end := sc.End.Zeit()
	p := resultFile(rc, "M")
	if p == "" {
		return
	}
	evs, err := parseMgmtFile(p, sc.DateFormat, sc.DivideCentury)
	if err != nil {
		return
	}
	var sow, harv []mgmtEvent
	for _, e := range evs {
		switch e.kind {
		case "sowing":
			sow = append(sow, e)
		case "harvest":
			harv = append(harv, e)
		case "fertilization":
			if sc.AutoFert {
				if v, ok := e.attrs["Ndirect"]; ok {
					if f, err := strconv.ParseFloat(v, 64); err == nil && f < 0 {
						rc.Violate("C16", "negative_automatic_n_application", fmt.Sprintf("automatic N application of %v kg N/ha on %s", f, DateOfZeit(e.zeit)), e.zeit, 0, nil)
					}
					rc.Cov("auto_n_applications", 1)
				}
			}
		}
	}
	prevHarvest := sc.Start.Zeit()
	for i := 1; i < len(sc.Rotation); i++ {
		e := sc.Rotation[i]
		row := sc.AutoRows[e.Crop]
		autoSow := sc.AutoSow && row != nil && !row.FixedSowing
		// ---- sowing ----
		if i-1 >= len(sow) {
			// not sown inside the run: legitimate only if its (latest) sowing day lies after the end
			latestSow := e.Sow.Zeit()
			if autoSow {
				latestSow = e.WinClose.Zeit()
			}
			if latestSow <= end {
				rc.Violate("C16", "rotation_entry_not_sown", fmt.Sprintf("rotation entry %d (%s) should be sown by %s but no sowing happened (end %s)", i+1, e.Crop, DateOfZeit(latestSow), sc.End), latestSow, 0, nil)
			}
			break
		}
		s := sow[i-1]
		if strings.TrimSpace(s.attrs["Crop"]) != e.Crop {
			rc.Violate("C16", "rotation_order", fmt.Sprintf("sowing %d is %q, the rotation entry is %s", i, s.attrs["Crop"], e.Crop), s.zeit, 0, nil)
			break
		}
		if autoSow {
			if s.zeit < e.WinOpen.Zeit() || s.zeit > e.WinClose.Zeit() {
				rc.Violate("C16", "sowing_outside_window", fmt.Sprintf("%s sown on %s, configured sowing window %s..%s", e.Crop, DateOfZeit(s.zeit), e.WinOpen, e.WinClose), s.zeit, 0, nil)
			}
			if s.zeit == e.WinClose.Zeit() {
				rc.Cov("sowings_forced_at_window_end", 1)
			} else {
				rc.Cov("sowings_triggered_inside_window", 1)
			}
		} else {
			if s.zeit != e.Sow.Zeit() {
				rc.Violate("C16", "fixed_sowing_date_missed", fmt.Sprintf("%s sown on %s, the rotation file says %s", e.Crop, DateOfZeit(s.zeit), e.Sow), s.zeit, 0, nil)
			}
			rc.Cov("sowings_fixed_date", 1)
		}
		if s.zeit <= prevHarvest {
			rc.Violate("C16", "sowing_before_previous_harvest", fmt.Sprintf("%s sown on %s, the preceding crop was harvested on %s", e.Crop, DateOfZeit(s.zeit), DateOfZeit(prevHarvest)), s.zeit, 0, nil)
		}
		// ---- harvest ----
		if i-1 >= len(harv) {
			latest := e.Harvest.Zeit()
			if sc.AutoHarvest {
				latest = e.LatestHarv.Zeit()
			}
			if latest <= end {
				rc.Violate("C16", "rotation_entry_not_harvested", fmt.Sprintf("rotation entry %d (%s) should be harvested by %s but no harvest happened (end %s)", i+1, e.Crop, DateOfZeit(latest), sc.End), latest, 0, nil)
			}
			break
		}
		h := harv[i-1]
		if strings.TrimSpace(h.attrs["Crop"]) != e.Crop {
			rc.Violate("C16", "rotation_order", fmt.Sprintf("harvest %d is %q, the rotation entry is %s", i, h.attrs["Crop"], e.Crop), h.zeit, 0, nil)
			break
		}
		if sc.AutoHarvest {
			if h.zeit > e.LatestHarv.Zeit() {
				rc.Violate("C16", "harvest_after_latest_date", fmt.Sprintf("%s harvested on %s, configured latest harvest date %s", e.Crop, DateOfZeit(h.zeit), e.LatestHarv), h.zeit, 0, nil)
			}
			if row != nil && row.FixedHarvest {
				rc.Cov("harvests_under_a_table_row_without_latest_date", 1)
			}
			if h.zeit == e.LatestHarv.Zeit() {
				rc.Cov("harvests_forced_at_latest_date", 1)
			} else {
				rc.Cov("harvests_triggered_before_latest_date", 1)
			}
		} else {
			if h.zeit != e.Harvest.Zeit() {
				rc.Violate("C16", "fixed_harvest_date_missed", fmt.Sprintf("%s harvested on %s, the rotation file says %s", e.Crop, DateOfZeit(h.zeit), e.Harvest), h.zeit, 0, nil)
			}
			rc.Cov("harvests_fixed_date", 1)
		}
		if h.zeit <= s.zeit {
			rc.Violate("C16", "harvest_before_sowing", fmt.Sprintf("%s harvested on %s, sown on %s", e.Crop, DateOfZeit(h.zeit), DateOfZeit(s.zeit)), h.zeit, 0, nil)
		}
		prevHarvest = h.zeit
	}
	// ---- crop records carry crop code and harvest year of their rotation entry ----
	if cp := resultFile(rc, "C"); cp != "" {
		cr, err := readRecords(cp, sc.CropCols, sc.ResultFormat == 1, -1, sc.DateFormat, sc.DivideCentury)
		if err == nil {
			for i, r := range cr {
				if i+1 >= len(sc.Rotation) || len(r.fields) < 8 {
					break
				}
				e := sc.Rotation[i+1]
				crop := strings.TrimSpace(r.fields[0])
				hy, _ := strconv.Atoi(strings.TrimSpace(r.fields[7]))
				wantY := e.Harvest.Y
				if sc.AutoHarvest && i < len(harv) {
					// an automatic harvest may fall into the year before the latest harvest date: the record carries the year it happened
					wantY = DateOfZeit(harv[i].zeit).Y
				}
				if crop != e.Crop || hy != wantY || hy > e.Harvest.Y {
					rc.Violate("C16", "crop_record_entry_mismatch", fmt.Sprintf("crop record %d is %s harvested in %d, rotation entry %d is %s with harvest year %d (harvest observed in %d)", i+1, crop, hy, i+2, e.Crop, e.Harvest.Y, wantY), 0, 0, nil)
					break
				}
				rc.Cov("crop_records_checked", 1)
			}
		}
	}
	for i := 1; i < len(sc.Rotation); i++ {
		if isPerennial(sc.Rotation[i].Crop) && sc.Rotation[i].Sow.Zeit() < end {
			rc.Cov("rotation_entries_permanent_crop", 1)
			if i+1 < len(sc.Rotation) && sc.Rotation[i+1].Crop == sc.Rotation[i].Crop {
				rc.Cov("permanent_crop_followed_by_itself", 1)
			}
		}
	}
	rc.Cov(fmt.Sprintf("runs_switches_sow%d_harv%d_irr%d_fert%d", onoff(sc.AutoSow), onoff(sc.AutoHarvest), onoff(sc.AutoIrr), onoff(sc.AutoFert)), 1)
	rc.Cov("n_substeps_with_automatic_n", int64(m.autoNSteps))
	rc.Res.NonTrivial = rc.Res.Days > 30 && (sc.AutoSow || sc.AutoHarvest || sc.AutoIrr || sc.AutoFert) && len(sow) > 0
}

// ------------------------------------------------------------------------------------------------------------------
// tight schedules around OBSERVED events: a probe run of the scenario finds the day on which the weather / maturity
// trigger harvests the first crop; the scenario is then rewritten so that the latest harvest date of that crop lies
// 0-2 days after that day and the following crop has a FIXED sowing date 1-3 days after the latest harvest date.
// The rewritten scenario is an ordinary valid scenario of the property's quantifier (the sowing date lies after the
// latest harvest date of the preceding crop); it is judged by the same oracle as every other case.
// ------------------------------------------------------------------------------------------------------------------

type monHarvestProbe struct {
	akfPre   int
	harvests [][2]int // (day, rotation index harvested)
}

func (m *monHarvestProbe) Event(ev *hermes.VerifEvent, rc *RunCtx) {
	switch ev.Site {
	case "pre_nitro":
		m.akfPre = ev.G.AKF.Index
	case "post_nitro":
		if ev.Subd == 1 && ev.G.AKF.Index != m.akfPre {
			m.harvests = append(m.harvests, [2]int{ev.Zeit, m.akfPre})
			if len(m.harvests) >= 2 {
				panic(abortRun{"probe done"})
			}
		}
	}
}
func (m *monHarvestProbe) Finish(rc *RunCtx) {}

// c16Scenario: the generated scenario of a C16 case; every fourth case is tightened around its observed first harvest
func c16Scenario(seed uint64, idx int) *Scenario {
	sc := GenScenario("C16", seed, idx)
	if idx%4 != 3 || !sc.AutoHarvest || len(sc.Rotation) < 3 {
		return sc
	}
	e1, e2 := &sc.Rotation[1], &sc.Rotation[2]
	r1, r2 := sc.AutoRows[e1.Crop], sc.AutoRows[e2.Crop]
	if r1 == nil || r2 == nil || e1.Crop == e2.Crop || e2.Sow.Zeit() >= sc.End.Zeit()-30 || r1.FixedHarvest {
		return sc
	}
	for i := 2; i < len(sc.Rotation); i++ {
		if sc.Rotation[i].Crop == e1.Crop && sc.Rotation[i].WinOpen.Zeit() <= sc.End.Zeit() {
			return sc // the table row of the first crop also governs a later crop of the run
		}
	}
	for i := 3; i < len(sc.Rotation); i++ {
		if sc.Rotation[i].Crop == e2.Crop && sc.Rotation[i].WinOpen.Zeit() <= sc.End.Zeit() && sc.AutoSow {
			return sc
		}
	}
	r := NewRng(mix(mix(seed, uint64(idx)), 1616))
	// the following crop gets a fixed sowing date (table row with sowing window start 0000) when sowing is automatic
	if sc.AutoSow {
		r2.FixedSowing = true
		sc.rebuildAutoman()
	}
	probe := &monHarvestProbe{}
	runScenario(sc, []Monitor{probe}, "")
	t1 := 0
	for _, h := range probe.harvests {
		if h[1] == 1 || (t1 == 0 && h[0] > e1.Sow.Zeit()) {
			t1 = h[0]
			break
		}
	}
	if t1 == 0 || t1 <= e1.Sow.Zeit()+20 || t1 > e1.LatestHarv.Zeit() {
		return sc
	}
	latest := DateOfZeit(t1 + r.Range(0, 2))
	if latest.Zeit() > e1.LatestHarv.Zeit() {
		latest = e1.LatestHarv
	}
	if latest.M == 2 && latest.D == 29 {
		return sc
	}
	sow2 := latest.AddDays(r.Range(1, 3))
	if sow2.Zeit()+45 > e2.LatestHarv.Zeit() || sow2.Zeit() >= e2.Harvest.Zeit()-40 || sow2.Zeit() >= sc.End.Zeit()-10 {
		return sc
	}
	r1.Har2 = Date{2001, latest.M, latest.D}.DOY()
	e1.LatestHarv = latest
	if e1.Harvest.Zeit() > latest.Zeit() {
		e1.Harvest = latest
	}
	e2.Sow = sow2
	if e2.WinOpen.Zeit() > sow2.Zeit() {
		e2.WinOpen = sow2
	}
	if e2.WinClose.Zeit() < sow2.Zeit() {
		e2.WinClose = sow2
	}
	// no tillage may fall between the new sowing date and the harvest of the following crop: drop those in the old gap
	var tl []TillEvent
	for _, t := range sc.Till {
		if t.D.Zeit() < e1.Sow.Zeit() || t.D.Zeit() > e2.LatestHarv.Zeit()+2 {
			tl = append(tl, t)
		}
	}
	sc.Till = tl
	sc.rebuildAutoman()
	sc.Tightened = true
	return sc
}

func runC16Case(tier string, seed uint64, idx int, keepDir string) *CaseResult {
	sc := c16Scenario(seed, idx)
	res := runScenario(sc, simProps["C16"].monitors(), keepDir)
	res.Sample = scenarioSample(sc)
	if sc.Hot {
		if res.Cov == nil {
			res.Cov = map[string]int64{}
		}
		res.Cov["cases_with_the_rare_choices_taken_together"]++
	}
	if sc.Tightened {
		if res.Cov == nil {
			res.Cov = map[string]int64{}
		}
		res.Cov["cases_fixed_sowing_right_after_observed_harvest"]++
	}
	return res
}

func init() {
	caseRunners["C16"] = runC16Case
	simProps["C16"] = simProp{checkSpec{Prop: "C16", Level: "exploration", NQuick: 2000, NThorough: 40000,
		Rule:   "cases = generated rotations of the shipped annual crops and (8 % of the entries) the shipped permanent crops grass / alfalfa, a permanent crop mostly followed by itself, whose sowing windows open after the latest harvest date of the preceding crop, random automatic-management tables (windows, triggers, stage windows, daily maxima, N demands, organic fertiliser), the four automation switches drawn independently (20% of the cases fully manual), all weather; sowing / harvest days from the management event log are checked against windows, latest dates and fixed dates, every automatic irrigation against stage window and daily maximum at the moment it is applied, automatic N applications for sign; every fourth case is first run as a probe and then rewritten around what was observed: the latest harvest date of the first crop 0-2 days after the day the trigger harvested it and a fixed sowing date of the following crop 1-3 days after that latest date; non-trivial = >30 days, at least one switch on and at least one sowing",
		Floors: []string{"sowings_triggered_inside_window", "sowings_forced_at_window_end", "sowings_fixed_date", "harvests_triggered_before_latest_date", "harvests_forced_at_latest_date", "harvests_fixed_date", "auto_irrigations", "auto_n_applications", "crop_records_checked", "cases_fixed_sowing_right_after_observed_harvest", "permanent_crop_followed_by_itself"}},
		func() []Monitor { return []Monitor{&monC16{}} }}
}

// ------------------------------------------------------------------------------------------------------------------
// postponed tillage meeting the next scheduled one (C02, C07): with automatic harvest a tillage dated inside the standing
// crop is postponed two days at a time until the crop is off the field. A probe run finds the day the first crop of the
// period is harvested; every second automatic-harvest case is then rewritten so that one mixing tillage is dated a few days
// before that day (inside the crop) and the next one on / one / two days after it: after the postponement two tillages are due
// within the same one or two days. The N bookkeeping must close whatever the routine makes of the two events.
// ------------------------------------------------------------------------------------------------------------------
func tillCollisionScenario(prop string, seed uint64, idx int) *Scenario {
	sc := GenScenario(prop, seed, idx)
	if !sc.AutoHarvest || len(sc.Rotation) < 2 {
		return sc
	}
	r := NewRng(mix(mix(seed, uint64(idx)), 2727))
	if !r.Bool(0.5) {
		return sc
	}
	probe := &monHarvestProbe{}
	runScenario(sc, []Monitor{probe}, "")
	h, entry := 0, 0
	for _, hv := range probe.harvests {
		if hv[1] >= 1 && hv[1] < len(sc.Rotation) && hv[0] > sc.Rotation[hv[1]].Sow.Zeit()+20 {
			h, entry = hv[0], hv[1]
			break
		}
	}
	if h == 0 || h >= sc.End.Zeit()-5 {
		return sc
	}
	sow := sc.Rotation[entry].Sow.Zeit()
	ta := h - r.Range(0, 1) - 2*r.Range(0, 4)
	if ta <= sow+1 {
		ta = h - 1
	}
	tb := h + r.Range(0, 2)
	if tb <= ta {
		tb = ta + 1
	}
	var tl []TillEvent
	for _, t := range sc.Till {
		if t.D.Zeit() < sow-1 {
			tl = append(tl, t)
		}
	}
	tl = append(tl, TillEvent{D: DateOfZeit(ta), Depth: pickI(r, []int{10, 15, 20, 25, 30}), Type: 1})
	tl = append(tl, TillEvent{D: DateOfZeit(tb), Depth: pickI(r, []int{10, 20, 30, 35}), Type: 1})
	if r.Bool(0.5) {
		tl = append(tl, TillEvent{D: DateOfZeit(tb + r.Range(1, 2)), Depth: pickI(r, []int{10, 20, 30}), Type: 1})
	}
	next := sc.End.Zeit() + 1000
	if entry+1 < len(sc.Rotation) {
		next = sc.Rotation[entry+1].Sow.Zeit()
		if sc.AutoSow && sc.Rotation[entry+1].WinOpen.Y != 0 && sc.Rotation[entry+1].WinOpen.Zeit() < next {
			next = sc.Rotation[entry+1].WinOpen.Zeit()
		}
	}
	for _, t := range sc.Till {
		if t.D.Zeit() > tb+4 {
			tl = append(tl, t)
		}
	}
	// nothing of the new train may reach the sowing of the following crop
	var keep []TillEvent
	for _, t := range tl {
		if t.D.Zeit() <= h+3 && t.D.Zeit() >= next-1 {
			continue
		}
		keep = append(keep, t)
	}
	// tillage cannot be deeper than the soil profile
	for i := range keep {
		if keep[i].Depth > 10*sc.Soil.N() {
			keep[i].Depth = 10 * sc.Soil.N()
		}
	}
	sc.Till = keep
	sc.TillCollision = true
	return sc
}

// finalScenario: the scenario a case index stands for, after the property's own rewriting around observed events
func finalScenario(prop string, seed uint64, idx int) *Scenario {
	switch prop {
	case "C16":
		return c16Scenario(seed, idx)
	case "C02", "C07":
		return tillCollisionScenario(prop, seed, idx)
	case "C15", "C06":
		return withFreshReference(GenScenario(prop, seed, idx))
	}
	return GenScenario(prop, seed, idx)
}
