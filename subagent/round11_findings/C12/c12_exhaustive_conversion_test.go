package hermes

import (
	"fmt"
	"testing"
	"time"
)

// TestC12Exhaustive: supplementary, PASSES on the unchanged code (hypothesis 1 of README.md): the pure
// conversion functions fulfil the property for all dates x formats x separators x century splits (~40 s).
func TestC12Exhaustive(t *testing.T) {
	start := time.Date(1901, 1, 1, 0, 0, 0, 0, time.UTC)
	end := time.Date(2099, 12, 31, 0, 0, 0, 0, time.UTC)
	fails := 0
	rep := func(f string, a ...interface{}) {
		fails++
		if fails < 40 {
			t.Errorf(f, a...)
		}
	}
	seps := []string{"", ".", "/", "-"}
	for _, format := range []DateFormat{DateDEshort, DateDElong, DateENshort, DateENlong} {
		short := format == DateDEshort || format == DateENshort
		cents := []int{0}
		if short {
			cents = nil
			for c := 0; c <= 100; c++ {
				cents = append(cents, c)
			}
		}
		for _, cent := range cents {
			conv := DateConverter(cent, format)
			for _, sep := range seps {
				kal := KalenderConverter(format, sep)
				n := 0
				for d := start; !d.After(end); d = d.AddDate(0, 0, 1) {
					n++
					y, m, dd := d.Year(), int(d.Month()), d.Day()
					if short {
						// window
						lo := 1900 + cent
						hi := 1999 + cent
						if y < lo || y > hi {
							continue
						}
					}
					var s string
					switch format {
					case DateDEshort:
						s = fmt.Sprintf("%02d%s%02d%s%02d", dd, sep, m, sep, y%100)
					case DateENshort:
						s = fmt.Sprintf("%02d%s%02d%s%02d", m, sep, dd, sep, y%100)
					case DateDElong:
						s = fmt.Sprintf("%02d%s%02d%s%04d", dd, sep, m, sep, y)
					case DateENlong:
						s = fmt.Sprintf("%02d%s%02d%s%04d", m, sep, dd, sep, y)
					}
					zt, mas := conv(s)
					if mas != n {
						rep("fmt %v cent %d sep %q %s: masDat %d want %d", format, cent, sep, s, mas, n)
					}
					if zt != d.YearDay() {
						rep("fmt %v cent %d sep %q %s: ztDat %d want %d", format, cent, sep, s, zt, d.YearDay())
					}
					back := kal(mas)
					if back != s {
						rep("fmt %v cent %d sep %q %s: back %s", format, cent, sep, s, back)
					}
					yy, mm, ddd := KalenderDate(n)
					if yy != y || mm != m || ddd != dd {
						rep("KalenderDate(%d) = %d %d %d want %v", n, yy, mm, ddd, d)
					}
				}
			}
		}
	}
	t.Logf("fails %d", fails)
}
