#!/bin/bash
# ./adopt.sh <worktree> <seeded-name> <test-pattern|demo.sh>
# Re-verifies a sub-agent's seeded change in its scratch worktree (patch = worktree diff, pinned suite still passes, demo fails
# with / passes without the change) and copies it to /verif/seeded/<name>/ ; then evaluates it with the quick check.
set -u
WT="$1"; NAME="$2"; PAT="$3"
cd "$WT" || exit 2
export GOPROXY=off GOSUMDB=off GOTOOLCHAIN=local; unset GOFLAGS
LOG=/tmp/adopt_$NAME.log; : > $LOG
# the deliverable is MUTANT/patch.diff: the worktree is reset to HEAD and the patch applied afresh (agents working in parallel
# worktrees have been seen to swap their uncommitted changes through the shared git stash)
cp -r MUTANT /tmp/adopt_${NAME}_MUTANT.bak; git checkout -q -- . ; git clean -fdq -e MUTANT -e PROPERTY.json
if ! git apply MUTANT/patch.diff; then echo "PATCH DOES NOT APPLY to HEAD" | tee -a $LOG; exit 2; fi
rm -rf /tmp/adopt_${NAME}_MUTANT.bak
/verif/mut_baseline.sh "$WT" 2>&1 | tail -3 | tee -a $LOG
for m in hermes src/hermes2go src/calcHermesBatch src/cropfileconverter; do (cd $m && go build ./... ) || echo "BUILD FAILS in $m" | tee -a $LOG; done
rm -f src/hermes2go/hermes2go src/calcHermesBatch/calcHermesBatch src/cropfileconverter/cropfileconverter
if [ "$PAT" = "demo.sh" ]; then
  bash MUTANT/demo.sh "$WT" > /tmp/adopt_${NAME}_with.txt 2>&1; echo "with change: demo exit $?" | tee -a $LOG
  git apply -R MUTANT/patch.diff
  bash MUTANT/demo.sh "$WT" > /tmp/adopt_${NAME}_without.txt 2>&1; echo "without change: demo exit $?" | tee -a $LOG
  git apply MUTANT/patch.diff
else
  cp MUTANT/*_test.go hermes/ 2>/dev/null
  RACE=""; ls MUTANT/*_race_test.go >/dev/null 2>&1 && RACE="-race"
  (cd hermes && go test $RACE -vet=off -count=1 -run "$PAT" . > /tmp/adopt_${NAME}_with.txt 2>&1); echo "with change: $(tail -1 /tmp/adopt_${NAME}_with.txt)" | tee -a $LOG
  git apply -R MUTANT/patch.diff
  (cd hermes && go test $RACE -vet=off -count=1 -run "$PAT" . > /tmp/adopt_${NAME}_without.txt 2>&1); echo "without change: $(tail -1 /tmp/adopt_${NAME}_without.txt)" | tee -a $LOG
  git apply MUTANT/patch.diff
  for f in MUTANT/*_test.go; do rm -f hermes/$(basename $f); done
fi
mkdir -p /verif/seeded/$NAME
cp -r MUTANT/* /verif/seeded/$NAME/
cd /verif
[ -f seeded/$NAME/meta.json ] || echo '{"property":"'${NAME:0:3}'"}' > seeded/$NAME/meta.json
./seeded_eval.sh $NAME quick 2>&1 | tee -a $LOG
