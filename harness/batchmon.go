package main

import (
	"bufio"
	"syscall"

	"github.com/zalf-rpm/Hermes2Go/hermes"

	"crypto/sha256"
	"encoding/hex"
	"encoding/json"
	"fmt"
	"os"
	"os/exec"
	"path/filepath"
	"sort"
	"strconv"
	"strings"
	"sync"
	"time"
)

// ------------------------------------------------------------------------------------
// E2 "batchmon": black-box batch / concurrency monitor over the real hermes2go binary
// built with -race -tags verif. Event log = VERIF_TRACE (run_start / run_end / pool_get
// with a global sequence number), race detector logs, stdout (log ids, error summary),
// result-file hashes compared with solo reference runs.
// ------------------------------------------------------------------------------------

type batchLine struct {
	ID      string // stable id of the line (also the name of its result folder)
	Project string
	Tokens  []string // key=value tokens without resultfolder
	Fail    string   // "" = valid line, else the error class it is built to fail with
	ErrLike string   // substring expected in the reported error
	DupOf   int      // >=0: exact duplicate (same result folder) of that line index
	Variant bool     // configuration variant of a project: same input files, other settings on the line
	Marker  bool     // the run sets the numerical-instability marker (a per-run text in the result files)
}

func (l *batchLine) text(resRoot string) string {
	return strings.Join(append(append([]string{}, l.Tokens...), "resultfolder="+filepath.Join(resRoot, l.ID)), " ")
}

type batchSet struct {
	Root  string
	Lines []batchLine
}

// genBatchProjects generates nProj small projects in one tree (shared parameter folder) and returns one valid line per project.
func genBatchProjects(root string, seed uint64, nProj int, tagProp string) ([]*Scenario, []batchLine, error) {
	var scs []*Scenario
	var lines []batchLine
	classicDone, fertDone, lateDone := false, false, false
	for i := 0; i < nProj; i++ {
		r := NewRng(mix(mix(seed, uint64(i)), hashStr(tagProp)))
		p := defaultProfile()
		p.Inject = 0
		p.Years = [2]int{1, 2}
		p.NoneValues = 0.1
		p.Measurement = 0.3
		p.ETMethods = []int{1 + i%5}
		p.Layouts = []int{i % 3}
		p.GWModes = []int{i % 3}
		if i%4 == 3 {
			p.PTFProb = 1
		}
		if i%5 == 4 {
			p.AutoProb = 1
		}
		sc := genWithProfile(tagProp, seed, i, r, p)
		unstable := false
		if i == nProj-1 {
			// one project whose nitrate transport goes numerically unstable: the run then writes its instability marker (a text
			// that belongs to the run) into the result files
			if u := findUnstableScenario(tagProp, seed, i); u != nil {
				sc = u
				unstable = true
			}
		}
		sc.YearlyCols = append(sc.YearlyCols, OutCol{Format: "%s", Var: "C1NotStableErr", Width: 14})
		if !sc.PrecipCorr {
			sc.AlwaysPreco = true
			for m := 0; m < 12; m++ {
				sc.PrecoFactors[m] = float64(r.Range(90, 135)) / 100
			}
		}
		sc.Project = fmt.Sprintf("p%02d", i)
		sc.Weather.Folder = fmt.Sprintf("wx%02d", i)
		if i == 4 && nProj > 4 {
			// a project (and weather folder) whose name differs from another project's only in letter case: different files
			sc.Project, sc.Weather.Folder = "P02", "WX02"
		}
		if i == 1 && sc.ReducedTablesWithout == "" && len(sc.AliasCrops) == 0 {
			// one project whose soil uses a texture class of its own: only its own parameter folder lists it (rows copied from
			// the class the generator had drawn), every other line of the session runs with tables that do not know it
			h := &sc.Soil.Horizons[0]
			sc.PrivateTextureLike, sc.PrivateTexture = h.Texture, "XQ7"
			h.Texture = "XQ7"
		}
		if !fertDone && i >= 1 && len(sc.OwnFertRows) == 0 {
			// one project with a fertiliser table of its own (in its own parameter folder) that gives a fertiliser of its schedule
			// other contents than the shipped table every other line runs with
			fertDone = sc.redefineFertRow(NewRng(mix(mix(seed, uint64(i)), 1013)))
		}
		if !classicDone && i >= 2 && sc.Soil.CSV {
			classicDone = true
			// one project whose csv soil file keeps the columns of the classic file it was converted from (other numbers under
			// other names): which column a run reads may not depend on anything but the documented names
			sc.SoilClassicCols = true
		}
		sc.ResultFormat = 1
		sc.DailyCols = pairDailyCols(sc.Soil.N())
		customCrop := ""
		if i%3 == 2 && !sc.AutoSow && !sc.AutoHarvest && !sc.AutoFert && !sc.AutoIrr {
			// a crop code that is not a system crop exercises the per-run dynamic crop lookup: its parameter file is a copy of
			// a shipped one under a new name in a parameter folder of its own
			// the first crop of the rotation: it is sown (and its parameter file read) inside the run
			if len(sc.Rotation) > 1 && sc.Rotation[1].Sow.Zeit() < sc.End.Zeit()-30 {
				customCrop = sc.Rotation[1].Crop
				sc.Rotation[1].Variety = ""
				sc.Rotation[1].Crop = fmt.Sprintf("Q%c%d", 'A'+rune(i%20), i%10)
			}
		}
		resDummy := filepath.Join(root, "res_unused")
		if !lateDone && tagProp == "C03" && i >= 3 && sc.Weather.Layout != 0 && !unstable && sc.End.Zeit()-sc.Start.Zeit() > 120 {
			// one project whose multi-year weather file begins some days after the simulation start: the model runs such days
			// without a record (open finding F05 of C04, not judged here); what it then reads is whatever its weather tables hold,
			// and that may not depend on which runs the process has finished before. The complete series is kept in a sister
			// weather folder; a variant line of the project runs with it (same period, other weather on the days cut away)
			cut := sc.Start.Zeit() + 5 + int(mix(seed, uint64(i))%30)
			var keep []WeatherDay
			for _, d := range sc.Weather.Days {
				if d.D.Zeit() > cut {
					keep = append(keep, d)
				}
			}
			if len(keep) > 0 && len(keep) < len(sc.Weather.Days) {
				lateDone = true
				sister := cloneScenario(sc)
				sister.Weather.Folder = sc.Weather.Folder + "s"
				if _, err := sister.Materialize(root, resDummy); err != nil {
					return nil, nil, err
				}
				keep[0].NoneTavg, keep[0].NoneSun, keep[0].NoneVerd = false, false, false
				sc.Weather.Days = keep
				sc.WeatherStartsLate, sc.SisterWeatherFolder = true, sister.Weather.Folder
			}
		}
		args, err := sc.Materialize(root, resDummy)
		if err != nil {
			return nil, nil, err
		}
		if customCrop != "" {
			// one parameter folder shared by all lines with their own crop codes (a name mix-up then silently reads another crop's file)
			pdir := "param_custom"
			if _, err := os.Stat(filepath.Join(root, pdir)); err != nil {
				if err := linkParamFolder(filepath.Join(root, pdir), nil); err != nil {
					return nil, nil, err
				}
			}
			newCode := ""
			for _, e := range sc.Rotation {
				if strings.HasPrefix(e.Crop, "Q") && len(e.Crop) == 3 && cropInfo(e.Crop) == nil {
					newCode = e.Crop
				}
			}
			for _, ext := range []string{"", ".yml"} {
				b, err := os.ReadFile(filepath.Join(paramDir, "PARAM."+customCrop+ext))
				if err != nil {
					return nil, nil, err
				}
				os.WriteFile(filepath.Join(root, pdir, "PARAM."+newCode+ext), b, 0644)
			}
			args = append(args, "parameter="+pdir)
		}
		var toks []string
		for _, a := range args {
			if !strings.HasPrefix(a, "resultfolder=") {
				toks = append(toks, a)
			}
		}
		scs = append(scs, sc)
		lines = append(lines, batchLine{ID: fmt.Sprintf("L%02d", i), Project: sc.Project, Tokens: toks, DupOf: -1, Marker: unstable})
	}
	os.RemoveAll(filepath.Join(root, "res_unused"))
	return scs, lines, nil
}

// monUnstable aborts the run as soon as the instability marker is set
type monUnstable struct{ found bool }

func (m *monUnstable) Event(ev *hermes.VerifEvent, rc *RunCtx) {
	if ev.Site == "day_end" && ev.G.C1NotStableErr != "" {
		m.found = true
		panic(abortRun{"instability marker set"})
	}
}
func (m *monUnstable) Finish(rc *RunCtx) {}

// findUnstableScenario searches the generator's hostile corner (stones, heavy rain, shallow groundwater) for a scenario whose
// run sets the instability marker; nil if none of the candidates does.
func findUnstableScenario(tagProp string, seed uint64, idx int) *Scenario {
	for k := 0; k < 60; k++ {
		r := NewRng(mix(mix(seed, uint64(idx)), uint64(9000+k)))
		p := defaultProfile()
		p.Inject, p.Measurement, p.NoneValues = 0, 0, 0
		p.Years = [2]int{1, 2}
		p.HeavyRain, p.Stones, p.ShallowGW, p.Drain = 1, 1, 0.8, 0.5
		p.MinLayers = 4
		sc := genWithProfile(tagProp, seed, idx*1000+k, r, p)
		m := &monUnstable{}
		runScenario(sc, []Monitor{m}, "")
		if m.found {
			return sc
		}
	}
	return nil
}

type batchRunResult struct {
	ExitCode int
	TimedOut bool
	// QuitAfterAllRunsEnded: the trace shows a run_end for every line of the batch, yet the process was still alive 30 s
	// later and was sent SIGQUIT; Stdout then holds the goroutine dump (see deadlocked)
	QuitAfterAllRunsEnded bool
	Stdout                string
	Dispatched            []int
	Errors                map[int]string // log id -> error text from the error summary
	NumErrors             int
	Trace                 []traceEv
	RaceReports           []string
	WallMS                int64
}

type traceEv struct {
	Seq  int64  `json:"seq"`
	Kind string `json:"kind"`
	ID   string `json:"id"`
}

type schedule struct {
	Concurrent int
	GoMaxProcs int
	DelaySeed  uint64
	DelayMaxUS int
	Order      []int // permutation of line indices
}

// runBatch executes the instrumented binary on a batch file.
func runBatch(bin, workDir, batchFile string, sch schedule, scratch string, tag string, timeoutSec int) *batchRunResult {
	res := &batchRunResult{Errors: map[int]string{}}
	tracePath := filepath.Join(scratch, "trace_"+tag+".jsonl")
	racePrefix := filepath.Join(scratch, "race_"+tag)
	os.Remove(tracePath)
	args := []string{"-module", "batch", "-concurrent", strconv.Itoa(sch.Concurrent), "-logoutput", "-workingdir", workDir, "-batch", batchFile}
	cmd := exec.Command(bin, args...)
	cmd.Dir = scratch
	env := os.Environ()
	env = append(env, "GORACE=halt_on_error=0 log_path="+racePrefix, "VERIF_TRACE="+tracePath)
	if sch.GoMaxProcs > 0 {
		env = append(env, "GOMAXPROCS="+strconv.Itoa(sch.GoMaxProcs))
	}
	if sch.DelayMaxUS > 0 {
		env = append(env, fmt.Sprintf("VERIF_DELAYS=%d:%d", sch.DelaySeed, sch.DelayMaxUS))
	}
	cmd.Env = env
	outPath := filepath.Join(scratch, "stdout_"+tag+".txt")
	of, _ := os.Create(outPath)
	cmd.Stdout = of
	cmd.Stderr = of
	// number of lines the batch holds: once that many runs have ended (trace) nothing is left to do but the summary
	nLines := 0
	if bb, err := os.ReadFile(batchFile); err == nil {
		for _, l := range strings.Split(string(bb), "\n") {
			if strings.TrimSpace(l) != "" {
				nLines++
			}
		}
	}
	t0 := time.Now()
	err := cmd.Start()
	if err == nil {
		done := make(chan error, 1)
		go func() { done <- cmd.Wait() }()
		var allEnded time.Time
		quit := false
		tick := time.NewTicker(400 * time.Millisecond)
	loop:
		for {
			select {
			case err = <-done:
				break loop
			case <-tick.C:
				if !quit && allEnded.IsZero() && nLines > 0 {
					if tb, e := os.ReadFile(tracePath); e == nil && strings.Count(string(tb), "\"run_end\"") >= nLines {
						allEnded = time.Now()
					}
				}
				switch {
				case !quit && !allEnded.IsZero() && time.Since(allEnded) > 30*time.Second:
					// every run has returned long ago and the process is still there: ask the runtime for its goroutines
					res.QuitAfterAllRunsEnded = true
					quit = true
					cmd.Process.Signal(syscall.SIGQUIT)
				case !quit && time.Since(t0) > time.Duration(timeoutSec)*time.Second:
					res.TimedOut = true
					quit = true
					cmd.Process.Signal(syscall.SIGQUIT)
				case quit && time.Since(t0) > time.Duration(timeoutSec+40)*time.Second:
					cmd.Process.Kill()
				}
			}
		}
		tick.Stop()
	}
	of.Close()
	res.WallMS = time.Since(t0).Milliseconds()
	if ee, ok := err.(*exec.ExitError); ok {
		res.ExitCode = ee.ExitCode()
	} else if err != nil {
		res.ExitCode = -1
	}
	b, _ := os.ReadFile(outPath)
	res.Stdout = string(b)
	inSummary := false
	res.NumErrors = -1
	for _, l := range strings.Split(strings.ReplaceAll(res.Stdout, "\r\n", "\n"), "\n") {
		l = strings.TrimSpace(l)
		if l == "Error Summary:" {
			inSummary = true
			continue
		}
		if strings.HasPrefix(l, "Number of errors:") {
			res.NumErrors, _ = strconv.Atoi(strings.TrimSpace(strings.TrimPrefix(l, "Number of errors:")))
			inSummary = false
			continue
		}
		if m := reDispatch.FindStringSubmatch(l); m != nil && !inSummary {
			v, _ := strconv.Atoi(m[1])
			res.Dispatched = append(res.Dispatched, v)
		} else if inSummary {
			if m := reDone.FindStringSubmatch(l); m != nil {
				v, _ := strconv.Atoi(m[1])
				res.Errors[v] = l
			}
		}
	}
	if f, err := os.Open(tracePath); err == nil {
		sc := bufio.NewScanner(f)
		sc.Buffer(make([]byte, 1<<20), 16<<20)
		for sc.Scan() {
			var e traceEv
			if json.Unmarshal(sc.Bytes(), &e) == nil {
				res.Trace = append(res.Trace, e)
			}
		}
		f.Close()
	}
	// race detector logs
	matches, _ := filepath.Glob(racePrefix + ".*")
	for _, m := range matches {
		rb, _ := os.ReadFile(m)
		for _, block := range strings.Split(string(rb), "==================") {
			if strings.Contains(block, "WARNING: DATA RACE") {
				res.RaceReports = append(res.RaceReports, block)
			}
		}
		os.Remove(m)
	}
	if strings.Contains(res.Stdout, "fatal error: concurrent map") {
		res.RaceReports = append(res.RaceReports, "fatal error: concurrent map access\n"+lastLines(res.Stdout, 12))
	}
	return res
}

// deadlocked judges a goroutine dump (SIGQUIT) on logical grounds: no goroutine of the program is running, runnable or in
// a system call, every one of them waits on a channel, a select or a sync primitive, so none can ever make progress.
// Returns the evidence (state and top frame of every goroutine) and whether the dump proves the deadlock.
func deadlocked(dump string) (string, bool) {
	i := strings.Index(dump, "SIGQUIT")
	if i < 0 {
		return "", false
	}
	blocks := strings.Split(dump[i:], "\n\n")
	var ev []string
	n := 0
	for _, b := range blocks {
		b = strings.TrimSpace(b)
		if !strings.HasPrefix(b, "goroutine ") {
			continue
		}
		lines := strings.Split(b, "\n")
		head := lines[0]
		k1, k2 := strings.Index(head, "["), strings.Index(head, "]")
		if k1 < 0 || k2 < k1 {
			continue
		}
		state := head[k1+1 : k2]
		if c := strings.Index(state, ","); c >= 0 {
			state = state[:c]
		}
		top := ""
		if len(lines) > 1 {
			top = strings.TrimSpace(lines[1])
		}
		// the runtime's own helpers: signal handling while the dump is written, the race detector's / GC's workers
		if strings.Contains(b, "os/signal.") || strings.Contains(b, "runtime.gcBgMarkWorker") || strings.Contains(b, "runtime.bgsweep") || strings.Contains(b, "runtime.bgscavenge") || strings.Contains(b, "runtime.forcegchelper") || strings.Contains(b, "runtime.runfinq") || strings.Contains(b, "runtime.runFinalizers") || strings.Contains(b, "runtime.ensureSigM") {
			continue
		}
		n++
		ev = append(ev, fmt.Sprintf("[%s] %s", state, top))
		switch state {
		case "chan send", "chan receive", "select", "semacquire", "sync.WaitGroup.Wait", "sync.Cond.Wait", "sync.Mutex.Lock", "sync.RWMutex.Lock", "sync.RWMutex.RLock", "select (no cases)", "chan send (nil chan)", "chan receive (nil chan)":
		default:
			return strings.Join(ev, " | "), false // running, runnable, syscall, IO wait, sleep ...: progress is still possible
		}
	}
	return strings.Join(ev, " | "), n > 0
}

// raceKey dedupes a race report by the pair of outermost hermes frames (line numbers stripped)
func raceKey(block string) string {
	var fr []string
	for _, l := range strings.Split(block, "\n") {
		l = strings.TrimSpace(l)
		if strings.Contains(l, "Hermes2Go/hermes.") || strings.HasPrefix(l, "main.") {
			l = strings.TrimSuffix(l, "()")
			fr = append(fr, l[strings.LastIndex(l, "/")+1:])
		}
	}
	if len(fr) == 0 {
		return trunc(strings.TrimSpace(block), 80)
	}
	uniq := map[string]bool{}
	var out []string
	for _, f := range fr {
		if !uniq[f] {
			uniq[f] = true
			out = append(out, f)
		}
		if len(out) >= 4 {
			break
		}
	}
	return strings.Join(out, " | ")
}

func hashDir(dir string) map[string]string {
	out := map[string]string{}
	entries, err := os.ReadDir(dir)
	if err != nil {
		return out
	}
	for _, e := range entries {
		if e.IsDir() {
			continue
		}
		b, _ := os.ReadFile(filepath.Join(dir, e.Name()))
		h := sha256.Sum256(b)
		out[e.Name()] = hex.EncodeToString(h[:8]) + fmt.Sprintf(":%d", len(b))
	}
	return out
}

// treeDigest hashes every input file below root (everything except the result and scratch folders): runs must not write there
func treeDigest(root string) map[string]string {
	out := map[string]string{}
	filepath.Walk(root, func(path string, info os.FileInfo, err error) error {
		if err != nil {
			return nil
		}
		rel, _ := filepath.Rel(root, path)
		if info.IsDir() {
			if rel == "res" || rel == "scratch" || rel == "res_unused" {
				return filepath.SkipDir
			}
			return nil
		}
		if info.Mode()&os.ModeSymlink != 0 {
			out[rel] = "symlink"
			return nil
		}
		b, e := os.ReadFile(path)
		if e != nil {
			out[rel] = "unreadable"
			return nil
		}
		h := sha256.Sum256(b)
		out[rel] = hex.EncodeToString(h[:8])
		return nil
	})
	return out
}

func sameHashes(a, b map[string]string) (bool, string) {
	var names []string
	for n := range a {
		names = append(names, n)
	}
	for n := range b {
		if _, ok := a[n]; !ok {
			names = append(names, n)
		}
	}
	sort.Strings(names)
	for _, n := range names {
		if a[n] != b[n] {
			return false, fmt.Sprintf("%s: %q vs %q", n, a[n], b[n])
		}
	}
	return true, ""
}

// traceStats: per log id exactly one run_start and one run_end; max simultaneous runs; completion order
func traceStats(tr []traceEv) (starts, ends map[string]int, maxActive int, completion string, firstLoaders map[string]string) {
	starts, ends = map[string]int{}, map[string]int{}
	firstLoaders = map[string]string{}
	sort.Slice(tr, func(i, j int) bool { return tr[i].Seq < tr[j].Seq })
	active := 0
	var order []string
	for _, e := range tr {
		switch e.Kind {
		case "run_start":
			starts[e.ID]++
			active++
			if active > maxActive {
				maxActive = active
			}
		case "run_end":
			ends[e.ID]++
			active--
			order = append(order, e.ID)
		}
	}
	return starts, ends, maxActive, strings.Join(order, ","), firstLoaders
}

// writeBatchFile writes the lines in the given order and returns the path.
func writeBatchFile(path string, lines []batchLine, order []int, resRoot string) {
	var b strings.Builder
	for _, i := range order {
		b.WriteString(lines[i].text(resRoot))
		b.WriteString("\n")
	}
	os.WriteFile(path, []byte(b.String()), 0644)
}

// soloReference runs every distinct line alone in a fresh process and returns its result-file hashes and status.
type soloRef struct {
	Hashes map[string]string
	Failed bool
	Err    string
}

func soloReferences(bin, root string, lines []batchLine, scratch string, repeats int, violate func(sig, msg string)) []soloRef {
	refs := make([]soloRef, len(lines))
	var wg sync.WaitGroup
	sem := make(chan struct{}, 16)
	var mu sync.Mutex
	for i := range lines {
		if lines[i].DupOf >= 0 {
			continue
		}
		wg.Add(1)
		go func(i int) {
			defer wg.Done()
			sem <- struct{}{}
			defer func() { <-sem }()
			for rep := 0; rep < repeats; rep++ {
				resRoot := filepath.Join(root, "res", fmt.Sprintf("solo%d", rep))
				bf := filepath.Join(scratch, fmt.Sprintf("solo_%d_%d.txt", i, rep))
				writeBatchFile(bf, lines, []int{i}, resRoot)
				r := runBatch(bin, root, bf, schedule{Concurrent: 1}, scratch, fmt.Sprintf("solo_%d_%d", i, rep), 300)
				h := hashDir(filepath.Join(resRoot, lines[i].ID))
				failed := len(r.Errors) > 0
				mu.Lock()
				if rep == 0 {
					refs[i] = soloRef{Hashes: h, Failed: failed}
					if failed {
						refs[i].Err = r.Errors[0]
					}
					if r.TimedOut || r.ExitCode != 0 {
						refs[i].Err = fmt.Sprintf("exit %d timeout=%v: %s", r.ExitCode, r.TimedOut, lastLines(r.Stdout, 3))
						refs[i].Failed = true
					}
				} else {
					if ok, why := sameHashes(refs[i].Hashes, h); !ok {
						violate("solo_run_not_reproducible", fmt.Sprintf("line %s run alone twice gives different result files: %s", lines[i].ID, why))
					}
				}
				for _, rr := range r.RaceReports {
					violate("data_race:"+raceKey(rr), "race detector report in a solo run: "+trunc(rr, 600))
				}
				if r.QuitAfterAllRunsEnded || r.TimedOut {
					if ev, dead := deadlocked(r.Stdout); dead && rep == 0 {
						violate("batch_does_not_terminate", fmt.Sprintf("line %s run alone: the run has returned but the process does not end; no goroutine can make progress: %s", lines[i].ID, trunc(ev, 600)))
					}
				}
				mu.Unlock()
			}
		}(i)
	}
	wg.Wait()
	return refs
}

func shuffled(r *Rng, n int) []int {
	p := make([]int, n)
	for i := range p {
		p[i] = i
	}
	for i := n - 1; i > 0; i-- {
		j := r.Intn(i + 1)
		p[i], p[j] = p[j], p[i]
	}
	return p
}

// ---------------------------------------------------------------------------------
// fault classes for C11: input errors the model reports as run errors
// ---------------------------------------------------------------------------------

var c11FaultClasses = []string{"unknown_soil_id", "unknown_field_id", "texture_not_in_tables", "inconsistent_texture_fractions", "weather_gap", "tillage_between_sowing_and_harvest", "start_year_mismatch"}

// applyFault turns a valid scenario into one that must fail with a reported run error of the given class.
// shape selects a variation of the fault (0 = the plainest form): another horizon, another boundary of the forbidden
// window, another kind of gap, ...
func applyFault(sc *Scenario, class string, r *Rng, shape int) (errLike string) {
	switch class {
	case "unknown_soil_id":
		switch shape % 3 {
		case 0:
			sc.PolySID = "9ZZ"
		case 1:
			sc.PolySID = sc.PolySID + "X" // an id that only extends an existing one
		default:
			if len(sc.PolySID) > 1 {
				sc.PolySID = sc.PolySID[:len(sc.PolySID)-1] // an id that is a prefix of an existing one
			} else {
				sc.PolySID = "9ZZ"
			}
		}
		if sc.GWMode == 2 {
			sc.GWMode = 1
		}
		return "not found"
	case "unknown_field_id":
		switch shape % 3 {
		case 0:
			sc.PolyFieldID = "NOFLD"
		case 1:
			sc.PolyFieldID = sc.PolyFieldID + "X"
		default:
			if len(sc.PolyFieldID) > 1 {
				sc.PolyFieldID = sc.PolyFieldID[:len(sc.PolyFieldID)-1]
			} else {
				sc.PolyFieldID = "NOFLD"
			}
		}
		return "not found"
	case "texture_not_in_tables":
		for i := range sc.Soil.Horizons {
			sc.Soil.Horizons[i].FC, sc.Soil.Horizons[i].WP, sc.Soil.Horizons[i].PS = 0, 0, 0
		}
		sc.PTF = 0
		nh := len(sc.Soil.Horizons)
		hi := nh - 1 // plainest form: the last horizon
		switch shape % 4 {
		case 1:
			hi = 0
		case 2:
			hi = nh / 2
		case 3:
			// the texture is a real one, but the line runs with a parameter folder of its own whose tables do not list it
			// (every other line of the batch uses the shipped tables, which do)
			sc.ReducedTablesWithout = sc.Soil.Horizons[hi].Texture
			// ... both tables, or (every second seed) only the capillary-rise table: the two tables of a folder need not list the
			// same classes, and the texture of the last horizon is looked up in both
			if (sc.Seed+uint64(shape))%2 == 1 {
				sc.ReducedTablesOnly = "PARCAP.TRU"
			}
			return strings.TrimSpace(sc.Soil.Horizons[hi].Texture)
		}
		sc.Soil.Horizons[hi].Texture = "QQ9"
		return "QQ9"
	case "inconsistent_texture_fractions":
		sc.PTF = 1 + r.Intn(4)
		for i := range sc.Soil.Horizons {
			h := &sc.Soil.Horizons[i]
			h.FC, h.WP = 0, 0
			h.PS = 60
		}
		nh := len(sc.Soil.Horizons)
		switch shape % 3 {
		case 0:
			h := &sc.Soil.Horizons[0]
			h.Sand, h.Silt, h.Clay = 30, 30, 20
		case 1:
			h := &sc.Soil.Horizons[nh-1]
			h.Sand, h.Silt, h.Clay = 44, 30, 30 // 104 % in the deepest horizon (the model tolerates 97..103 as rounding)
		default:
			h := &sc.Soil.Horizons[nh/2]
			h.Sand, h.Silt, h.Clay = 36, 30, 30 // 96 %
		}
		return "does not sum up to 100"
	case "weather_gap":
		if sc.Weather.Layout == 0 {
			sc.Weather.Layout = 1 + r.Intn(2)
			if sc.ETpot == 5 {
				sc.ETpot = 3
			}
		}
		// remove a block of days inside the first simulated year after the start (shape 1: one single day; shape 2: a block
		// late in the simulated period)
		from := sc.Start.Zeit() + r.Range(20, 60)
		to := from + r.Range(0, 20)
		if shape%4 == 3 && sc.Weather.EndsMidYear {
			shape = 2 // the series stops shortly after the end date: the end date cannot be moved to 31 December
		}
		switch shape % 4 {
		case 1:
			to = from
		case 2:
			from = sc.End.Zeit() - r.Range(25, 60)
			if from <= sc.Start.Zeit()+5 {
				from = sc.Start.Zeit() + 20
			}
			to = from + r.Range(0, 6)
		case 3:
			// the simulation runs to 31 December and the last day(s) of that year are missing; the series goes on in January
			sc.End = Date{sc.End.Y, 12, 31}
			to = sc.End.Zeit()
			from = to - r.Range(0, 3)
		}
		fy := DateOfZeit(from).Y
		if hi := (Date{fy, 12, 30}).Zeit(); to > hi && shape%4 != 3 {
			from, to = hi-10, hi
		}
		var keep []WeatherDay
		for _, d := range sc.Weather.Days {
			if z := d.D.Zeit(); z >= from && z <= to {
				continue
			}
			d.NoneSun, d.NoneVerd, d.NoneTavg = false, false, false
			keep = append(keep, d)
		}
		sc.Weather.Days = keep
		return "missing days"
	case "tillage_between_sowing_and_harvest":
		// the first crop that is sown and harvested inside the simulated period (else: one that is at least sown inside it)
		var e *RotEntry
		inside := false
		for i := 1; i < len(sc.Rotation); i++ {
			if sc.Rotation[i].Harvest.Zeit() <= sc.End.Zeit()-3 {
				e, inside = &sc.Rotation[i], true
				break
			}
		}
		if e == nil {
			for i := 1; i < len(sc.Rotation); i++ {
				if sc.Rotation[i].Sow.Zeit() < sc.End.Zeit()-12 {
					e = &sc.Rotation[i]
					break
				}
			}
		}
		if e == nil {
			return "" // no crop inside the period: the fault cannot be placed
		}
		z := (e.Sow.Zeit() + e.Harvest.Zeit()) / 2
		if !inside {
			z = e.Sow.Zeit() + 4
			shape = 2 - shape%2*2 // only the shapes at the sowing end of the window
		}
		switch shape % 4 {
		case 1:
			z = e.Harvest.Zeit() // the harvest day itself still belongs to the crop
		case 2:
			z = e.Sow.Zeit() + 1
		case 3:
			z = e.Harvest.Zeit() - 1
		}
		sc.AutoSow, sc.AutoHarvest = false, false
		sc.Till = []TillEvent{{DateOfZeit(z), 20, 1}}
		if shape%4 != 0 && e.Sow.Zeit()-6 > sc.Start.Zeit() {
			// a regular tillage in the fallow before the crop comes first
			sc.Till = append([]TillEvent{{DateOfZeit(e.Sow.Zeit() - 5), 15, 1}}, sc.Till...)
		}
		return "tillage date"
	case "start_year_mismatch":
		off := []int{1, -1, 10, 60}[shape%4]
		if off >= 10 {
			// a start year behind the END of the simulation (a typing slip: 2080 for 1980), with a multi-year weather layout
			// (the number of years to load is computed from start year and end date there)
			if sc.Weather.Layout == 0 {
				sc.Weather.Layout = 1 + shape%2
				if sc.ETpot == 5 {
					sc.ETpot = 3
				}
				if sc.Weather.Layout == 2 && sc.Weather.NumHeader == 3 {
					sc.Weather.NumHeader = 2
				}
			}
		}
		sc.ExtraArgs = append(sc.ExtraArgs, "StartYear="+strconv.Itoa(sc.Start.Y+off))
		return "start year"
	}
	return ""
}
