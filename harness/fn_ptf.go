package main

import (
	"fmt"
	"time"

	"github.com/zalf-rpm/Hermes2Go/hermes"
)

// =====================================================================================
// C15 (function level): the four pedotransfer functions on the complete 1 % grid of admissible
// (sand, silt, clay) triples (each >= 5 %, sand <= 85 %) x organic carbon 0..6 % in steps of 0.25,
// and the threshold helper on the resulting values
// =====================================================================================

func init() {
	fnProps["C15"] = func(tier string, seed uint64, shard, nshards int, begin func(string)) *FnResult {
		res := &FnResult{}
		g := hermes.NewGlobalVarsMain()
		for clay := 5 + shard; clay <= 90; clay += nshards {
			begin(fmt.Sprintf("clay %d", clay))
			for silt := 5; silt <= 90-clay; silt++ {
				sand := 100 - clay - silt
				if sand < 5 || sand > 85 {
					continue
				}
				for c4 := 0; c4 <= 24; c4++ {
					corg := float64(c4) / 4
					for ptf := 1; ptf <= 4; ptf++ {
						var fc, wp float64
						switch ptf {
						case 1:
							fc, wp = hermes.PTF1(corg, float64(clay), float64(silt))
						case 2:
							fc, wp = hermes.PTF2(corg, float64(clay), float64(silt))
						case 3:
							fc, wp = hermes.PTF3(corg, float64(clay), float64(silt))
						default:
							fc, wp = hermes.PTF4(corg, float64(clay), float64(sand))
						}
						res.Evals++
						if !(wp > 0 && wp < fc && fc < 1) || !finite(fc) || !finite(wp) {
							res.violate("C15", fmt.Sprintf("ptf%d_order", ptf), fmt.Sprintf("transfer function %d: sand %d silt %d clay %d organic carbon %.2f gives wilting point %.6g, field capacity %.6g (need 0 < WP < FC < 1)", ptf, sand, silt, clay, corg, wp, fc), nil)
							continue
						}
						// the reduced-mineralisation threshold for these values lies strictly between them
						g.STEIN[0] = 0
						g.BART[0] = []string{"SL3", "LT2"}[(clay+silt+c4)%2] // the helper distinguishes sandy top soils
						hermes.VerifCalcWRed(wp*100, fc*100, &g)
						if !(g.WRED > wp && g.WRED < fc) {
							res.violate("C15", "wred_outside_ptf", fmt.Sprintf("threshold %.6g not strictly between WP %.6g and FC %.6g (transfer function %d, sand %d silt %d clay %d, organic carbon %.2f)", g.WRED, wp, fc, ptf, sand, silt, clay, corg), nil)
						}
						res.NonTrivial++
						res.cov(fmt.Sprintf("ptf%d_grid_points", ptf), 1)
					}
				}
			}
		}
		res.sample(map[string]interface{}{"grid": "clay 5..90 x silt 5.. x sand 5..85 (1 % steps) x organic carbon 0..6 % (0.25 steps) x transfer functions 1-4"})
		return res
	}
	fnShards["C15"] = 16
	sp := simProps["C15"]
	otherChecks["C15"] = func(tier string, seed uint64) int {
		t0 := time.Now()
		n := sp.spec.NQuick
		if tier == "thorough" {
			n = sp.spec.NThorough
		}
		results, inconclusive := runCasesSharded("C15", tier, seed, n)
		rs := runFnSharded("C15", tier, seed, fnShards["C15"], 900)
		cases, inc := fnToCases("C15", seed, rs, func(r *FnResult) string { return "crash:transfer_function" })
		results = append(results, cases...)
		inconclusive = append(inconclusive, inc...)
		spec := sp.spec
		spec.Rule += "; function level (both tiers, exhaustive): the four transfer functions and the threshold helper on the complete 1 % grid of admissible texture triples x organic carbon 0..6 % in 0.25 steps"
		spec.Floors = append(append([]string{}, spec.Floors...), "ptf1_grid_points", "ptf2_grid_points", "ptf3_grid_points", "ptf4_grid_points")
		return finishCheck(spec, tier, seed, results, inconclusive, t0, nil)
	}
}
