package main

import (
	"fmt"
	"math"
	"sort"

	"github.com/zalf-rpm/Hermes2Go/hermes"
)

// =====================================================================================
// C19: soil temperature within the envelope of its boundary temperatures
// =====================================================================================

type monC19 struct {
	lo, hi  float64
	init    bool
	maxDiff float64
	frost   bool
	hot     bool
}

func (m *monC19) Event(ev *hermes.VerifEvent, rc *RunCtx) {
	g := ev.G
	switch ev.Site {
	case "input_done":
		m.lo, m.hi = g.TBASE, g.TBASE
		for z := 0; z <= g.N; z++ {
			m.lo = math.Min(m.lo, g.TSOIL[0][z])
			m.hi = math.Max(m.hi, g.TSOIL[0][z])
		}
		m.init = true
	case "day_end":
		if !m.init {
			return
		}
		n := g.N
		// the surface value imposed today
		surf := g.TD[0]
		if !finite(surf) {
			rc.Violate("C19", nanSig(g, "surface_temperature_not_finite"), fmt.Sprintf("surface temperature is %v", surf), ev.Zeit, 0, nil)
			return
		}
		m.lo = math.Min(m.lo, surf)
		m.hi = math.Max(m.hi, surf)
		const eps = 1e-9
		for z := 0; z <= n; z++ {
			for k, t := range []float64{g.TD[z], g.TSOIL[0][z]} {
				if !finite(t) {
					rc.Violate("C19", nanSig(g, "soil_temperature_not_finite"), fmt.Sprintf("layer %d temperature is %v", z, t), ev.Zeit, z, nil)
					continue
				}
				if t < m.lo-eps || t > m.hi+eps {
					rc.Violate("C19", "temperature_outside_envelope", fmt.Sprintf("layer %d temperature %.12g (%d) outside the envelope [%.12g, %.12g] of all boundary values imposed so far", z, t, k, m.lo, m.hi), ev.Zeit, z,
						map[string]float64{"t": t, "lo": m.lo, "hi": m.hi})
				}
			}
		}
		for i := 0; i < n; i++ {
			if !(g.HEATCAP[i] > 0) {
				rc.Violate("C19", nanSig(g, "heat_capacity_not_positive"), fmt.Sprintf("layer %d heat capacity %.12g", i+1, g.HEATCAP[i]), ev.Zeit, i+1, nil)
				continue
			}
			r := g.HEATCOND[i] / g.HEATCAP[i] * g.DT.Num / 24 / (g.DZ.Num * g.DZ.Num)
			if r > m.maxDiff {
				m.maxDiff = r
			}
			if !(r <= 0.5) || r < 0 {
				rc.Violate("C19", nanSig(g, "diffusion_number_above_half"), fmt.Sprintf("layer %d diffusion number %.6g of the explicit scheme is not within [0, 0.5] (conductivity %.6g, capacity %.6g)", i+1, r, g.HEATCOND[i], g.HEATCAP[i]), ev.Zeit, i+1, nil)
			}
		}
		if surf < 0 {
			m.frost = true
			rc.Cov("days_frost_surface", 1)
		}
		if surf > 30 {
			m.hot = true
			rc.Cov("days_hot_surface", 1)
		}
		if math.Abs(surf-(g.TMIN[g.TAG.Index]+g.TMAX[g.TAG.Index])/2) > 1e-9 {
			rc.Cov("days_radiation_surface_formula", 1)
		}
		rc.Cov("days", 1)
		rc.Cov("layer_temperature_checks", int64(2*(n+1)))
	}
}

func (m *monC19) Finish(rc *RunCtx) {
	rc.CovMax("max_diffusion_number_x1e6", int64(m.maxDiff*1e6))
	rc.Res.NonTrivial = rc.Res.Days > 30 && rc.Sc.Soil.N() >= 2
}

// =====================================================================================
// C20: groundwater level follows the series / oscillates between the given levels
// =====================================================================================

type monC20 struct {
	interp  bool
	outside bool
	exact   bool
}

// reference interpolation, independent of the model's implementation
func refGW(series []GWPoint, zeit int) float64 {
	pts := make([]GWPoint, len(series))
	copy(pts, series)
	sort.SliceStable(pts, func(i, j int) bool { return pts[i].D.Zeit() < pts[j].D.Zeit() })
	if zeit <= pts[0].D.Zeit() {
		return pts[0].Level
	}
	last := pts[len(pts)-1]
	if zeit >= last.D.Zeit() {
		return last.Level
	}
	for i := 0; i+1 < len(pts); i++ {
		a, b := pts[i], pts[i+1]
		if zeit == a.D.Zeit() {
			return a.Level
		}
		if zeit > a.D.Zeit() && zeit < b.D.Zeit() {
			f := float64(zeit-a.D.Zeit()) / float64(b.D.Zeit()-a.D.Zeit())
			return a.Level + f*(b.Level-a.Level)
		}
	}
	return last.Level
}

// refGWBounds: the two given values the level of that day must lie between (both equal to the value itself on a given date
// and outside the span of the series)
func refGWBounds(series []GWPoint, zeit int) (lo, hi float64) {
	pts := make([]GWPoint, len(series))
	copy(pts, series)
	sort.SliceStable(pts, func(i, j int) bool { return pts[i].D.Zeit() < pts[j].D.Zeit() })
	if zeit <= pts[0].D.Zeit() {
		return pts[0].Level, pts[0].Level
	}
	last := pts[len(pts)-1]
	if zeit >= last.D.Zeit() {
		return last.Level, last.Level
	}
	for i := 0; i+1 < len(pts); i++ {
		a, b := pts[i], pts[i+1]
		if zeit == a.D.Zeit() {
			return a.Level, a.Level
		}
		if zeit > a.D.Zeit() && zeit < b.D.Zeit() {
			return math.Min(a.Level, b.Level), math.Max(a.Level, b.Level)
		}
	}
	return last.Level, last.Level
}

// gwInputChanges: does the groundwater input give another level for that day than for the day before?
func gwInputChanges(sc *Scenario, zeit int) bool {
	switch sc.GWMode {
	case 0:
		return sc.GRHI != sc.GRLO
	case 2:
		if len(sc.GWSeries) == 0 {
			return false
		}
		l0, h0 := refGWBounds(sc.GWSeries, zeit-1)
		l1, h1 := refGWBounds(sc.GWSeries, zeit)
		return !(l0 == h0 && l1 == h1 && l0 == l1) // no change only if both days lie on one plateau of the series
	}
	return false
}

func (m *monC20) Event(ev *hermes.VerifEvent, rc *RunCtx) {
	if ev.Site != "pre_evatra" {
		return
	}
	g := ev.G
	sc := rc.Sc
	switch sc.GWMode {
	case 2:
		exp := refGW(sc.GWSeries, ev.Zeit)
		if math.Abs(g.GRW-exp) > 1e-9*math.Max(1, math.Abs(exp)) {
			rc.Violate("C20", "gw_series_mismatch", fmt.Sprintf("groundwater level used %.12g != series value / interpolation %.12g", g.GRW, exp), ev.Zeit, 0, map[string]float64{"grw": g.GRW, "expected": exp})
		}
		if lo, hi := refGWBounds(sc.GWSeries, ev.Zeit); g.GRW < lo || g.GRW > hi {
			rc.Violate("C20", "gw_outside_neighbours", fmt.Sprintf("groundwater level used %.17g lies outside the two neighbouring values of the series [%.17g, %.17g]", g.GRW, lo, hi), ev.Zeit, 0, map[string]float64{"grw": g.GRW, "lo": lo, "hi": hi})
		}
		first, last := sc.GWSeries[0].D.Zeit(), sc.GWSeries[len(sc.GWSeries)-1].D.Zeit()
		switch {
		case ev.Zeit < first || ev.Zeit > last:
			m.outside = true
			rc.Cov("days_outside_series", 1)
		default:
			isNode := false
			for _, p := range sc.GWSeries {
				if p.D.Zeit() == ev.Zeit {
					isNode = true
				}
			}
			if isNode {
				m.exact = true
				rc.Cov("days_on_series_date", 1)
			} else {
				m.interp = true
				rc.Cov("days_interpolated", 1)
			}
		}
	case 0:
		mean := float64(sc.GRLO+sc.GRHI) / 2
		ampl := float64(sc.GRLO-sc.GRHI) / 2
		doy := float64(DateOfZeit(ev.Zeit).DOY())
		exp := mean - ampl*math.Sin((doy+float64(sc.GWPhase))*math.Pi/180)
		if math.Abs(g.GRW-exp) > 1e-9 {
			rc.Violate("C20", "gw_sinusoid_mismatch", fmt.Sprintf("groundwater level used %.12g != mean %.4g - amplitude %.4g * sin((doy %v + phase %d) deg) = %.12g", g.GRW, mean, ampl, doy, sc.GWPhase, exp), ev.Zeit, 0, nil)
		}
		if g.GRW < float64(sc.GRHI)-1e-9 || g.GRW > float64(sc.GRLO)+1e-9 {
			rc.Violate("C20", "gw_outside_minmax", fmt.Sprintf("groundwater level %.12g outside [%d, %d]", g.GRW, sc.GRHI, sc.GRLO), ev.Zeit, 0, nil)
		}
		rc.Cov("days_polygon_mode", 1)
		m.interp = true
	case 1:
		if g.GRW != float64(sc.Soil.GW) {
			rc.Violate("C20", "gw_constant_mismatch", fmt.Sprintf("groundwater level used %.12g != constant level %d of the soil file", g.GRW, sc.Soil.GW), ev.Zeit, 0, nil)
		}
		rc.Cov("days_constant_mode", 1)
	}
	rc.Cov("days", 1)
}

func (m *monC20) Finish(rc *RunCtx) {
	rc.Res.NonTrivial = rc.Res.Days > 30 && (m.interp || m.outside)
}

// =====================================================================================
// C15: soil hydraulic parameters physically ordered, groundwater history
// =====================================================================================

type paramVec struct {
	W, WMIN, PORGES, WNOR [21]float64
	WRED                  float64
	zeit                  int
	initial               bool // recorded before the first groundwater change of the run (parameters as set up by the input module)
}

// ------------------------------------------------------------------------------------------------------------------
// reference run with a forced re-evaluation: the soil parameters are a function of the groundwater level alone, so a run
// in which the daily groundwater update is made to re-evaluate them from scratch EVERY day must use, day by day, the same
// parameters as the ordinary run. The reference run is the real model too; the monitor only overwrites the remembered
// "level of yesterday" at the day_begin probe (directly in front of the update), so that the update always sees a change.
// Whatever the ordinary run keeps, skips or restores wrongly (stale values, an update that is left out for small steps,
// values of another horizon or of an earlier level) shows as a difference on that day, without the level having to recur.
// ------------------------------------------------------------------------------------------------------------------
type freshRec struct {
	p   paramVec
	izm int
}

type monForceFresh struct {
	rec map[int]*freshRec
}

func (m *monForceFresh) Event(ev *hermes.VerifEvent, rc *RunCtx) {
	g := ev.G
	switch ev.Site {
	case "day_begin":
		if rc.Sc.GWMode != 1 {
			g.GRW = -1e9 // yesterday's level "forgotten": today's level is a change, whatever it is
		}
	case "pre_evatra":
		m.rec[ev.Zeit] = &freshRec{p: paramVec{W: g.W, WMIN: g.WMIN, PORGES: g.PORGES, WNOR: g.WNOR, WRED: g.WRED, zeit: ev.Zeit}, izm: g.IZM}
	}
}
func (m *monForceFresh) Finish(rc *RunCtx) {}

// withFreshReference runs the scenario once with the forced re-evaluation and attaches what it recorded
func withFreshReference(sc *Scenario) *Scenario {
	if sc.GWMode == 1 || sc.WeatherFault != "" {
		return sc
	}
	probe := &monForceFresh{rec: map[int]*freshRec{}}
	c := cloneScenario(sc)
	c.Inject = nil
	res := runScenario(c, []Monitor{probe}, "")
	if res.Status == "ok" && len(probe.rec) > 0 {
		sc.freshRef = probe.rec
	}
	return sc
}

type monC15 struct {
	hist     map[float64]paramVec
	recurred bool
	below    bool
	lastGRW  float64
	changes  int
}

func (m *monC15) check(ev *hermes.VerifEvent, rc *RunCtx, where string) {
	g := ev.G
	n := g.N
	route := "table"
	if g.PTF > 0 {
		route = "ptf"
	} else if g.CAPPAR == 1 {
		route = "explicit"
	}
	for z := 0; z < n; z++ {
		w, wp, ps := g.W[z], g.WMIN[z], g.PORGES[z]
		ok := wp > 0 && wp < w && w <= ps+1e-12 && ps < 1
		if !ok {
			sig := "parameter_order_" + route
			stone := false
			for h := 0; h < g.AZHO; h++ {
				if g.STEIN[h] > 0 {
					stone = true
				}
			}
			_ = stone
			if w > ps+1e-12 && route == "table" {
				sig = "fc_gt_ps_table"
			}
			rc.Violate("C15", sig, fmt.Sprintf("%s: layer %d violates 0 < WP %.6g < FC %.6g <= PS %.6g < 1 (route %s, texture %q, groundwater %.3g)", where, z+1, wp, w, ps, route, textureOfLayer(g, z), g.GRW), ev.Zeit, z+1,
				map[string]float64{"wp": wp, "fc": w, "ps": ps})
		}
		// a layer that lies entirely below the groundwater table (its upper edge, z dm, at or below the table): field capacity
		// equals pore volume - also when the table sits exactly on the upper edge of the layer
		if float64(z) >= g.GRW {
			m.below = true
			if w != ps {
				rc.Violate("C15", "fc_ne_ps_below_groundwater", fmt.Sprintf("%s: layer %d lies below the groundwater table (%.3g dm) but FC %.6g != PS %.6g", where, z+1, g.GRW, w, ps), ev.Zeit, z+1, nil)
			}
		}
	}
	if !(g.WRED > g.WMIN[0] && g.WRED < g.W[0]) {
		sig := "wred_outside_" + route
		if g.WRED < g.WMIN[0] && g.WRED < 0.02 {
			sig = "wred_percent_fraction_mixup"
		} else if route == "table" && g.STEIN[0] > 0 {
			sig = "wred_not_scaled_by_stones"
		}
		rc.Violate("C15", sig, fmt.Sprintf("%s: reduced-mineralisation threshold %.6g not strictly between WP %.6g and FC %.6g of the top layer (route %s, stones %.2f)", where, g.WRED, g.WMIN[0], g.W[0], route, g.STEIN[0]), ev.Zeit, 1,
			map[string]float64{"wred": g.WRED, "wp": g.WMIN[0], "fc": g.W[0]})
	}
	rc.Cov("parameter_checks", int64(n))
	rc.Cov("route_"+route, 1)
}

func textureOfLayer(g *hermes.GlobalVarsMain, z int) string {
	for h := 0; h < g.AZHO; h++ {
		if z+1 > g.UKT[h] && z+1 <= g.UKT[h+1] {
			return g.BART[h]
		}
	}
	return "?"
}

func (m *monC15) Event(ev *hermes.VerifEvent, rc *RunCtx) {
	g := ev.G
	switch ev.Site {
	case "input_done":
		m.hist = map[float64]paramVec{}
		m.check(ev, rc, "after input")
		m.lastGRW = g.GRW
		m.changes = 0
	case "pre_evatra":
		m.check(ev, rc, "start of day")
		// groundwater history: same level => same parameters
		if g.GRW != m.lastGRW {
			m.changes++
		}
		m.lastGRW = g.GRW
		cur := paramVec{W: g.W, WMIN: g.WMIN, PORGES: g.PORGES, WNOR: g.WNOR, WRED: g.WRED, zeit: ev.Zeit, initial: m.changes == 0}
		// reference run with a forced re-evaluation on every day: same level, same day => same parameters
		if fr := rc.Sc.freshRef[ev.Zeit]; fr != nil {
			rc.Cov("days_compared_with_forced_reevaluation", 1)
			for z := 0; z < g.N; z++ {
				if fr.p.W[z] != cur.W[z] || fr.p.WMIN[z] != cur.WMIN[z] || fr.p.PORGES[z] != cur.PORGES[z] || fr.p.WNOR[z] != cur.WNOR[z] {
					sig := "parameters_differ_from_forced_reevaluation"
					if m.changes == 0 && fr.p.WMIN[z] == cur.WMIN[z] && fr.p.PORGES[z] == cur.PORGES[z] {
						sig = "initial_gw_parameters_inconsistent" // as set up by the input module, before the first change of the level (F18)
					}
					rc.Violate("C15", sig, fmt.Sprintf("groundwater at %.6g dm: layer %d runs with FC %.6g WP %.6g PS %.6g, a run that re-evaluates the parameters from scratch every day has FC %.6g WP %.6g PS %.6g for the same day", g.GRW, z+1, cur.W[z], cur.WMIN[z], cur.PORGES[z], fr.p.W[z], fr.p.WMIN[z], fr.p.PORGES[z]), ev.Zeit, z+1, nil)
					break
				}
			}
			if m.changes > 0 && math.Abs(fr.p.WRED-cur.WRED) > 1e-12 {
				rc.Violate("C15", "threshold_differs_from_forced_reevaluation", fmt.Sprintf("groundwater at %.6g dm: mineralisation threshold %.6g, a run that re-evaluates the parameters every day has %.6g", g.GRW, cur.WRED, fr.p.WRED), ev.Zeit, 1, nil)
			}
			if m.changes > 0 && fr.izm != g.IZM {
				rc.Violate("C15", "mineralisation_depth_differs_from_forced_reevaluation", fmt.Sprintf("groundwater at %.6g dm: the mineralisation depth set by the parameter lookup is %d cm, a run that re-evaluates the parameters every day has %d cm", g.GRW, g.IZM, fr.izm), ev.Zeit, 0, nil)
			}
		}
		if old, ok := m.hist[g.GRW]; ok {
			if old.zeit != ev.Zeit-1 {
				m.recurred = true
				rc.Cov("groundwater_level_recurrences", 1)
			}
			for z := 0; z < g.N; z++ {
				if old.W[z] != cur.W[z] || old.WMIN[z] != cur.WMIN[z] || old.PORGES[z] != cur.PORGES[z] || old.WNOR[z] != cur.WNOR[z] {
					sig := "parameters_differ_at_same_groundwater_level"
					// the recorded finding F18 concerns the field capacity the input module sets up for the initial level
					// (groundwater supplements, saturation from the groundwater layer downwards): wilting point and pore
					// volume of a layer never depend on the level, a difference there is something else
					if old.initial && !cur.initial && old.WMIN[z] == cur.WMIN[z] && old.PORGES[z] == cur.PORGES[z] {
						sig = "initial_gw_parameters_inconsistent"
					}
					rc.Violate("C15", sig, fmt.Sprintf("groundwater back at %.6g dm (as on %s) but layer %d parameters differ: FC %.6g/%.6g WP %.6g/%.6g PS %.6g/%.6g", g.GRW, DateOfZeit(old.zeit), z+1, old.W[z], cur.W[z], old.WMIN[z], cur.WMIN[z], old.PORGES[z], cur.PORGES[z]), ev.Zeit, z+1, nil)
					break
				}
			}
			if math.Abs(old.WRED-cur.WRED) > 1e-12 {
				sig := "threshold_differs_at_same_groundwater_level"
				if old.initial && !cur.initial {
					sig = "initial_gw_parameters_inconsistent"
				}
				if cur.WRED < 0.02 {
					sig = "wred_percent_fraction_mixup"
				}
				rc.Violate("C15", sig, fmt.Sprintf("groundwater back at %.6g dm but the mineralisation threshold differs: %.6g then, %.6g now", g.GRW, old.WRED, cur.WRED), ev.Zeit, 1, nil)
			}
		}
		cur.zeit = ev.Zeit
		if old, ok := m.hist[g.GRW]; ok && old.initial && !cur.initial {
			// keep comparing later recurrences with the first post-input record, not with the input set-up
			cur.initial = false
		}
		m.hist[g.GRW] = cur
	case "day_end":
		m.check(ev, rc, "end of day")
	}
}

func (m *monC15) Finish(rc *RunCtx) {
	rc.Cov("groundwater_level_changes", int64(m.changes))
	rc.Res.NonTrivial = rc.Res.Days > 2
}
