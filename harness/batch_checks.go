package main

import (
	"encoding/json"
	"fmt"
	"os"
	"os/exec"
	"path/filepath"
	"sort"
	"strconv"
	"strings"
	"sync"
	"time"
)

// =====================================================================================
// C03: results are deterministic and independent of scheduling; no data races
// C11: runs are isolated, always terminate, failures are reported per run
// =====================================================================================

type batchAgg struct {
	mu         sync.Mutex
	violations []Violation
	nviol      map[string]int
	cov        map[string]int64
	samples    []interface{}
	inconcl    []string
	orders     map[string]bool
	evals      int
	nontrivial int
}

func newBatchAgg() *batchAgg {
	return &batchAgg{nviol: map[string]int{}, cov: map[string]int64{}, orders: map[string]bool{}}
}

func (a *batchAgg) violate(prop, sig, msg string) {
	a.mu.Lock()
	defer a.mu.Unlock()
	key := prop + "|" + sig
	a.nviol[key]++
	if a.nviol[key] <= maxViolPerSig {
		a.violations = append(a.violations, Violation{Prop: prop, Sig: sig, Msg: msg})
	}
}
func (a *batchAgg) add(k string, n int64) {
	a.mu.Lock()
	a.cov[k] += n
	a.mu.Unlock()
}
func (a *batchAgg) max(k string, n int64) {
	a.mu.Lock()
	if n > a.cov[k] {
		a.cov[k] = n
	}
	a.mu.Unlock()
}

func (a *batchAgg) toCase(prop string, seed uint64) *CaseResult {
	c := &CaseResult{Prop: prop, Seed: seed, Index: 2000000, Status: "ok", FnShard: true, Evals: int64(a.evals), NonTrivN: int64(a.nontrivial), Cov: a.cov, Violations: a.violations, NViol: a.nviol}
	if len(a.samples) > 0 {
		c.Sample = map[string]interface{}{"schedules": a.samples}
	}
	return c
}

func raceBinary() (string, bool) {
	p := filepath.Join(buildDir(), "hermes2go_race")
	_, err := os.Stat(p)
	return p, err == nil
}

// checkScheduleRun: common oracles over one execution of a whole batch.
func checkScheduleRun(prop string, agg *batchAgg, lines []batchLine, refs []soloRef, sch schedule, r *batchRunResult, resRoot string, desc string) {
	n := len(lines)
	if r.TimedOut || r.QuitAfterAllRunsEnded {
		// a process that does not end is judged on its goroutine dump, never on the clock: if no goroutine can make progress
		// any more the batch cannot terminate
		if ev, dead := deadlocked(r.Stdout); dead {
			agg.violate(prop, "batch_does_not_terminate", fmt.Sprintf("%s: every run has returned but the process does not end; no goroutine can make progress: %s", desc, trunc(ev, 700)))
			return
		}
		agg.mu.Lock()
		agg.inconcl = append(agg.inconcl, "wall-clock watchdog fired for "+desc+": "+goroutineFrame(r.Stdout))
		agg.mu.Unlock()
		return
	}
	for _, rr := range r.RaceReports {
		agg.violate(prop, "data_race:"+raceKey(rr), fmt.Sprintf("%s: race detector report: %s", desc, trunc(rr, 900)))
	}
	if r.ExitCode != 0 {
		if len(r.RaceReports) == 0 || !strings.Contains(r.Stdout, "Number of errors") {
			agg.violate(prop, "batch_process_died", fmt.Sprintf("%s: the batch process ended with exit code %d: %s", desc, r.ExitCode, lastLines(r.Stdout, 6)))
			return
		}
	}
	// every line dispatched exactly once; trace: exactly one run_start and one run_end per log id
	want := make([]int, n)
	for i := range want {
		want[i] = i
	}
	if !sameMultiset(r.Dispatched, want) {
		agg.violate(prop, "dispatch_not_exactly_once", fmt.Sprintf("%s: dispatched log ids %v, expected each of 0..%d once", desc, r.Dispatched, n-1))
	}
	starts, ends, maxActive, completion, _ := traceStats(r.Trace)
	for i := 0; i < n; i++ {
		id := fmt.Sprintf("[%d]", i)
		if starts[id] != 1 || ends[id] != 1 {
			agg.violate(prop, "run_events_not_exactly_once", fmt.Sprintf("%s: log id %s has %d run_start and %d run_end events", desc, id, starts[id], ends[id]))
		}
	}
	agg.max("max_simultaneous_runs", int64(maxActive))
	if maxActive > sch.Concurrent {
		agg.violate(prop, "concurrency_limit_exceeded", fmt.Sprintf("%s: %d runs were active at once, limit %d", desc, maxActive, sch.Concurrent))
	}
	agg.mu.Lock()
	agg.orders[completion] = true
	agg.evals++
	if maxActive >= 2 {
		agg.nontrivial++
	}
	agg.mu.Unlock()
	// error summary lists exactly the failing lines (positions in THIS order)
	var expFail []int
	for pos, li := range sch.Order {
		ref := refs[refIndex(lines, li)]
		if ref.Failed {
			expFail = append(expFail, pos)
		}
	}
	var gotFail []int
	for id := range r.Errors {
		gotFail = append(gotFail, id)
	}
	sort.Ints(gotFail)
	if !sameMultiset(gotFail, expFail) || r.NumErrors != len(expFail) {
		agg.violate(prop, "error_summary_mismatch", fmt.Sprintf("%s: error summary lists log ids %v (count %d), the lines that fail alone are at positions %v", desc, gotFail, r.NumErrors, expFail))
	}
	for pos, li := range sch.Order {
		if lines[li].Fail != "" {
			if e, ok := r.Errors[pos]; ok && lines[li].ErrLike != "" && !strings.Contains(e, lines[li].ErrLike) {
				agg.violate(prop, "error_attributed_wrongly", fmt.Sprintf("%s: line %s (%s) failed with %q, expected an error mentioning %q", desc, lines[li].ID, lines[li].Fail, e, lines[li].ErrLike))
			}
		}
	}
	// every line's result files equal its solo reference
	for _, li := range sch.Order {
		ri := refIndex(lines, li)
		h := hashDir(filepath.Join(resRoot, lines[ri].ID))
		if ok, why := sameHashes(refs[ri].Hashes, h); !ok {
			sig := "results_differ_from_solo_run"
			if lines[li].Fail != "" {
				sig = "failing_line_outputs_differ"
			}
			agg.violate(prop, sig, fmt.Sprintf("%s: line %s (%s) result files differ from its solo run: %s", desc, lines[li].ID, lines[li].Project, why))
		}
		agg.add("line_results_compared", 1)
	}
	// only the lines' own result folders exist
	entries, _ := os.ReadDir(resRoot)
	for _, e := range entries {
		known := false
		for _, l := range lines {
			if l.ID == e.Name() {
				known = true
			}
		}
		if !known {
			agg.violate(prop, "foreign_result_folder", fmt.Sprintf("%s: unexpected entry %s in the result root", desc, e.Name()))
		}
	}
	agg.add(fmt.Sprintf("schedules_concurrency_%d", sch.Concurrent), 1)
	if sch.DelayMaxUS > 0 {
		agg.add("schedules_with_injected_delays", 1)
	}
	if sch.GoMaxProcs > 0 {
		agg.add(fmt.Sprintf("schedules_gomaxprocs_%d", sch.GoMaxProcs), 1)
	}
}

func refIndex(lines []batchLine, li int) int {
	if lines[li].DupOf >= 0 {
		return lines[li].DupOf
	}
	return li
}

func genSchedules(r *Rng, n int, count int) []schedule {
	concs := []int{1, 2, 3, 4, 8, 16, 16, 5, 2, 6, 12, 16}
	var out []schedule
	for k := 0; k < count; k++ {
		s := schedule{Concurrent: concs[k%len(concs)]}
		if k > 0 {
			s.Order = shuffled(r, n)
		} else {
			s.Order = shuffled(NewRng(1), n)
			for i := range s.Order {
				s.Order[i] = i
			}
		}
		switch k % 4 {
		case 1:
			s.GoMaxProcs = 1
		case 2:
			s.GoMaxProcs = 2
		case 3:
			s.GoMaxProcs = 16
		}
		if k%2 == 1 {
			s.DelaySeed = r.U64() % 100000
			s.DelayMaxUS = pickI(r, []int{200, 2000, 20000})
		}
		out = append(out, s)
	}
	return out
}

func runSchedules(prop string, agg *batchAgg, bin, root string, lines []batchLine, refs []soloRef, scheds []schedule, scratch string, tagPrefix string, parallel int) {
	var wg sync.WaitGroup
	sem := make(chan struct{}, parallel)
	for k, sch := range scheds {
		wg.Add(1)
		go func(k int, sch schedule) {
			defer wg.Done()
			sem <- struct{}{}
			defer func() { <-sem }()
			tag := fmt.Sprintf("%s%d", tagPrefix, k)
			resRoot := filepath.Join(root, "res", tag)
			bf := filepath.Join(scratch, "batch_"+tag+".txt")
			writeBatchFile(bf, lines, sch.Order, resRoot)
			r := runBatch(bin, root, bf, sch, scratch, tag, 900)
			var ids []string
			for _, li := range sch.Order {
				ids = append(ids, lines[li].ID)
			}
			desc := fmt.Sprintf("schedule %s (concurrent %d, GOMAXPROCS %d, delays %d:%dus, order %s)", tag, sch.Concurrent, sch.GoMaxProcs, sch.DelaySeed, sch.DelayMaxUS, strings.Join(ids, " "))
			checkScheduleRun(prop, agg, lines, refs, sch, r, resRoot, desc)
			agg.mu.Lock()
			if len(agg.samples) < 3 {
				_, _, maxActive, completion, _ := traceStats(r.Trace)
				agg.samples = append(agg.samples, map[string]interface{}{"schedule": desc, "max_simultaneous_runs": maxActive, "completion_order": completion, "trace_events": len(r.Trace), "wall_ms": r.WallMS})
			}
			agg.mu.Unlock()
			os.RemoveAll(resRoot)
		}(k, sch)
	}
	wg.Wait()
}

func runC03(tier string, seed uint64) int {
	t0 := time.Now()
	bin, ok := raceBinary()
	if !ok {
		fmt.Println("INCONCLUSIVE: instrumented binary not built")
		return 2
	}
	agg := newBatchAgg()
	nBatches, nSched, nProj := 1, 10, 8
	if tier == "thorough" {
		nBatches, nSched, nProj = 4, 36, 10
	}
	for b := 0; b < nBatches; b++ {
		root, err := os.MkdirTemp(scratchBase, "c03")
		if err != nil {
			fmt.Println("INCONCLUSIVE:", err)
			return 2
		}
		scratch := filepath.Join(root, "scratch")
		os.MkdirAll(scratch, 0755)
		bseed := mix(seed, uint64(b)+303)
		scs, lines, err := genBatchProjects(root, bseed, nProj, "C03")
		if err != nil {
			fmt.Println("INCONCLUSIVE:", err)
			os.RemoveAll(root)
			return 2
		}
		// the project whose weather file starts late: twice more with result folders of its own
		for k, sc := range scs {
			if sc.WeatherStartsLate {
				for _, suffix := range []string{"x", "y"} {
					l := lines[k]
					l.ID = fmt.Sprintf("L%02d%s", k, suffix)
					lines = append(lines, l)
				}
				agg.add("projects_whose_weather_file_starts_after_the_simulation_start", 1)
			}
		}
		// the same project again with its own result folder, and exact duplicates of two lines (same result folder)
		for k := 0; k < 2; k++ {
			l := lines[k]
			l.ID = fmt.Sprintf("L%02db", k)
			lines = append(lines, l)
		}
		for _, k := range []int{0, 3} {
			l := lines[k]
			l.DupOf = k
			lines = append(lines, l)
		}
		// valid lines that write to the log channel while they run: a crop override with an out-of-range value is rejected
		// with a message and the run carries on (its solo reference is run with the same tokens)
		for _, k := range []int{1, 4, 6} {
			if k >= nProj || len(scs[k].Rotation) < 2 {
				continue
			}
			l := lines[k]
			l.ID = fmt.Sprintf("L%02dc", k)
			e := scs[k].Rotation[1]
			l.Tokens = append(append([]string{}, l.Tokens...), "CropFile="+cropParamFileName(e.Crop, e.Variety, scs[k].CropParamYml), "c_MAXAMAX=500")
			lines = append(lines, l)
			agg.add("lines_logging_while_valid", 1)
		}
		// configuration variants: the SAME project (same soil, crop, weather and parameter files) run with other settings on
		// the batch line. Whatever a session shares between runs is then asked for by runs that must interpret it differently.
		nFixed := len(lines)
		vr := NewRng(mix(bseed, 4141))
		nVar := nVariantKinds // every kind of setting once
		if tier == "thorough" {
			nVar = 2 * nVariantKinds
		}
		if err := writeAltParamFolder(filepath.Join(root, "param_alt")); err != nil {
			fmt.Println("INCONCLUSIVE:", err)
			os.RemoveAll(root)
			return 2
		}
		for v := 0; v < nVar; v++ {
			k := vr.Intn(nProj)
			// some settings only matter for projects of a certain shape: prefer such a project
			prefer := func(ok func(c *Scenario, custom bool) bool) {
				for j := 0; j < nProj; j++ {
					c := scs[(k+j)%nProj]
					custom := false
					for _, t := range lines[(k+j)%nProj].Tokens {
						custom = custom || strings.HasPrefix(t, "parameter=")
					}
					if ok(c, custom) {
						k = (k + j) % nProj
						return
					}
				}
			}
			switch v % nVariantKinds {
			case 9: // another parameter folder: a project that reads its soil parameters from the texture table
				prefer(func(c *Scenario, custom bool) bool { return c.PTF == 0 && c.Soil.Horizons[0].FC == 0 && !custom })
			case 10: // precipitation correction: the multi-year weather layouts (first round: CSV, second round: day of year)
				want := 1 + (v/nVariantKinds)%2
				prefer(func(c *Scenario, custom bool) bool { return c.Weather.Layout == want })
			case 0: // groundwater source: a project with groundwater within reach
				prefer(func(c *Scenario, custom bool) bool { return c.Soil.GW < 40 || c.GRHI < 40 })
			}
			l := lines[k]
			l.ID = fmt.Sprintf("L%02dv%d", k, v)
			l.Tokens = append(append([]string{}, l.Tokens...), variantTokens(scs[k], vr, v)...)
			l.Variant = true
			lines = append(lines, l)
		}
		// ... and three times with the complete series of its sister weather folder (same period, so the same table sizes)
		for k, sc := range scs {
			if sc.WeatherStartsLate {
				for w := 0; w < 3; w++ {
					l := lines[k]
					l.ID = fmt.Sprintf("L%02dw%d", k, w)
					l.Tokens = append(append([]string{}, l.Tokens...), "WeatherFolder="+sc.SisterWeatherFolder)
					l.Variant = true
					lines = append(lines, l)
				}
			}
		}
		refs := soloReferences(bin, root, lines, scratch, 2, func(sig, msg string) { agg.violate("C03", sig, msg) })
		// a variant whose settings the project cannot run with (e.g. a transfer function without texture fractions) is dropped
		{
			kl, kr := lines[:nFixed:nFixed], refs[:nFixed:nFixed]
			for i := nFixed; i < len(lines); i++ {
				if refs[i].Failed || len(refs[i].Hashes) == 0 {
					agg.add("variant_lines_dropped", 1)
					continue
				}
				kl, kr = append(kl, lines[i]), append(kr, refs[i])
				agg.add("variant_lines", 1)
				same := true
				if ok, _ := sameHashesIgnoringNames(refs[i].Hashes, refs[projLineIndex(lines, lines[i].Project)].Hashes); !ok {
					same = false
				}
				if !same {
					agg.add("variant_lines_with_other_results", 1)
				}
			}
			lines, refs = kl, kr
		}
		for i, rf := range refs {
			if lines[i].DupOf < 0 && (rf.Failed || len(rf.Hashes) == 0) {
				agg.mu.Lock()
				agg.inconcl = append(agg.inconcl, fmt.Sprintf("generated line %s does not run alone: %s", lines[i].ID, rf.Err))
				agg.mu.Unlock()
			}
		}
		agg.add("solo_reference_runs", int64(2*len(lines)-4))
		r := NewRng(mix(bseed, 77))
		scheds := genSchedules(r, len(lines), nSched)
		inputsBefore := treeDigest(root)
		runSchedules("C03", agg, bin, root, lines, refs, scheds, scratch, fmt.Sprintf("b%ds", b), 3)
		if ok, why := sameHashes(inputsBefore, treeDigest(root)); !ok {
			agg.violate("C03", "run_wrote_outside_its_result_folder", "the project / weather / parameter trees changed during the batch executions: "+why)
		}
		agg.add("input_tree_files_compared", int64(len(inputsBefore)))
		agg.add("batches", 1)
		agg.add("batch_lines", int64(len(lines)))
		for _, l := range lines {
			if l.Marker && l.DupOf < 0 {
				agg.add("lines_with_instability_marker", 1)
			}
			for _, t := range l.Tokens {
				if strings.HasPrefix(t, "parameter=") && l.DupOf < 0 {
					agg.add("lines_with_custom_crop_code", 1)
				}
			}
		}
		if os.Getenv("VERIF_KEEP") == "" {
			os.RemoveAll(root)
		} else {
			fmt.Println("kept", root)
		}
	}
	// file pool history under the race detector (porcupine)
	poolRes := runPoolHistory(seed, tier)
	for k, v := range poolRes.Cov {
		agg.add(k, v)
	}
	for _, v := range poolRes.Violations {
		agg.violate("C03", v.Sig, v.Msg)
	}
	if poolRes.Inconclusive != "" {
		agg.inconcl = append(agg.inconcl, poolRes.Inconclusive)
	}
	agg.cov["distinct_completion_orders"] = int64(len(agg.orders))
	spec := checkSpec{Prop: "C03", Level: "exploration",
		Rule:     "per batch: generated projects covering the five ET methods, three weather layouts, three groundwater modes, PTF and automatic management, plus the same project with a second result folder, exact duplicate lines and configuration variants of a project (the same input files run with another groundwater source, ET method, CO2 method, leaching depth, fertilisation factor, deposition, parameter format ... on the batch line); every distinct line is run alone twice in fresh processes (reference hashes, reproducibility), then the whole batch is executed by the real hermes2go built with -race and the verif hooks under schedules = (concurrency 1..16, shuffled line order, GOMAXPROCS 1/2/16, seeded delays at run start / before the result send / at pool access); every line's result files must equal the solo reference, every log id must have exactly one run_start and one run_end event in the trace, the race detector must stay silent; plus a porcupine linearizability check of recorded file-pool histories (in-process, -race). evaluations = batch executions under a schedule; non-trivial = executions in which at least two runs were active at the same time according to the trace",
		Floors:   []string{"line_results_compared", "schedules_concurrency_1", "schedules_concurrency_16", "schedules_with_injected_delays", "solo_reference_runs", "pool_history_operations", "pool_histories_checked", "lines_logging_while_valid", "lines_with_custom_crop_code", "lines_with_instability_marker", "variant_lines_with_other_results"},
		FloorMin: map[string]int64{"max_simultaneous_runs": 4, "distinct_completion_orders": 3}}
	return finishCheck(spec, tier, seed, []*CaseResult{agg.toCase("C03", seed)}, agg.inconcl, t0, map[string]interface{}{"race_detector": "go build -race; GORACE=halt_on_error=0 log_path=...; reports deduplicated by outermost frame pair"})
}

// ---------------------------------------------------------------------------------

func runC11(tier string, seed uint64) int {
	t0 := time.Now()
	bin, ok := raceBinary()
	if !ok {
		fmt.Println("INCONCLUSIVE: instrumented binary not built")
		return 2
	}
	agg := newBatchAgg()
	root, err := os.MkdirTemp(scratchBase, "c11")
	if err != nil {
		fmt.Println("INCONCLUSIVE:", err)
		return 2
	}
	if os.Getenv("VERIF_KEEP") == "" {
		defer os.RemoveAll(root)
	} else {
		fmt.Println("kept", root)
	}
	scratch := filepath.Join(root, "scratch")
	os.MkdirAll(scratch, 0755)
	nValid := 5
	scs, valid, err := genBatchProjects(root, mix(seed, 1111), nValid, "C11")
	if err != nil {
		fmt.Println("INCONCLUSIVE:", err)
		return 2
	}
	// failing projects derived from valid ones: per class the plainest form (shape 0, used in the class x position x
	// concurrency enumeration) and further shapes of the same fault (run alone and together in the mixed batches)
	var failing []batchLine // shape 0, one per class
	var shaped []batchLine  // further shapes
	r := NewRng(mix(seed, 11))
	nShapes := 4
	for ci, class := range c11FaultClasses {
		for sh := 0; sh < nShapes; sh++ {
			src := scs[(ci+sh)%len(scs)]
			if class == "tillage_between_sowing_and_harvest" {
				// prefer a project with a crop that is sown and harvested inside the simulated period (both ends of the window)
				for k := 0; k < len(scs); k++ {
					c := scs[(ci+sh+k)%len(scs)]
					ok := false
					for i := 1; i < len(c.Rotation); i++ {
						if c.Rotation[i].Harvest.Zeit() <= c.End.Zeit()-3 {
							ok = true
						}
					}
					if ok {
						src = c
						break
					}
				}
			}
			// a project with a crop code of its own reads its parameter file from the folder named on its batch line
			srcParam := ""
			for k := range scs {
				if scs[k] == src {
					for _, t := range valid[k].Tokens {
						if strings.HasPrefix(t, "parameter=") {
							srcParam = t
						}
					}
				}
			}
			base := cloneScenario(src)
			base.Project = fmt.Sprintf("f%02d_%d", ci, sh)
			base.Weather.Folder = fmt.Sprintf("wf%02d_%d", ci, sh)
			like := applyFault(base, class, r, sh)
			if like == "" {
				continue // the fault cannot be placed in this project
			}
			args, err := base.Materialize(root, filepath.Join(root, "res_unused"))
			if err != nil {
				continue
			}
			var toks []string
			hasParam := false
			for _, a := range args {
				if !strings.HasPrefix(a, "resultfolder=") {
					toks = append(toks, a)
				}
				hasParam = hasParam || strings.HasPrefix(a, "parameter=")
			}
			if srcParam != "" && !hasParam {
				toks = append(toks, srcParam)
			}
			bl := batchLine{ID: fmt.Sprintf("F%02ds%d", ci, sh), Project: base.Project, Tokens: toks, Fail: class, ErrLike: like, DupOf: -1}
			if sh == 0 {
				failing = append(failing, bl)
			} else {
				shaped = append(shaped, bl)
				agg.add("fault_shapes_beyond_the_plainest", 1)
			}
		}
	}
	os.RemoveAll(filepath.Join(root, "res_unused"))
	all := append(append(append([]batchLine{}, valid...), failing...), shaped...)
	refs := soloReferences(bin, root, all, scratch, 1, func(sig, msg string) { agg.violate("C11", sig, msg) })
	// the fault classes must be reported as run errors when run alone; the valid lines must succeed
	for i, l := range all {
		if l.Fail == "" && refs[i].Failed {
			agg.inconcl = append(agg.inconcl, fmt.Sprintf("generated valid line %s fails alone: %s", l.ID, refs[i].Err))
		}
		if l.Fail != "" {
			if !refs[i].Failed {
				agg.violate("C11", "input_error_not_reported:"+l.Fail, fmt.Sprintf("line %s is built to fail with %s but the run reported success", l.ID, l.Fail))
			} else if strings.HasPrefix(refs[i].Err, "exit") {
				agg.violate("C11", "input_error_kills_process:"+l.Fail, fmt.Sprintf("line %s (%s) run alone does not end with a per-run error: %s", l.ID, l.Fail, refs[i].Err))
			} else if l.ErrLike != "" && !strings.Contains(refs[i].Err, l.ErrLike) {
				agg.violate("C11", "error_attributed_wrongly", fmt.Sprintf("line %s (%s) failed with %q, expected an error mentioning %q", l.ID, l.Fail, refs[i].Err, l.ErrLike))
			} else {
				agg.add("fault_class_reported_"+l.Fail, 1)
			}
		}
	}
	// fault enumeration: class x position x concurrency
	positions := []string{"first", "middle", "last", "all_but_one"}
	concs := []int{1, 2, 4, 16}
	if tier != "thorough" {
		positions = []string{"first", "middle", "last"}
		concs = []int{2, 16}
	}
	var scheds []schedule
	var batches [][]batchLine
	for fi := range failing {
		for _, pos := range positions {
			for _, c := range concs {
				var ls []batchLine
				switch pos {
				case "first":
					ls = append([]batchLine{failing[fi]}, valid...)
				case "last":
					ls = append(append([]batchLine{}, valid...), failing[fi])
				case "middle":
					ls = append(append(append([]batchLine{}, valid[:2]...), failing[fi]), valid[2:]...)
				default: // all failing lines and one valid line
					ls = append(append([]batchLine{}, failing...), valid[fi%len(valid)])
				}
				batches = append(batches, ls)
				s := schedule{Concurrent: c}
				if (fi+c)%2 == 0 {
					s.DelaySeed, s.DelayMaxUS = uint64(fi*31+c), 2000
				}
				scheds = append(scheds, s)
			}
		}
	}
	// mixed batch: everything at once, shuffled, several schedules
	nMixed := 4
	if tier == "thorough" {
		nMixed = 12
	}
	for k := 0; k < nMixed; k++ {
		batches = append(batches, all)
		scheds = append(scheds, schedule{Concurrent: []int{16, 3, 1, 8}[k%4], DelaySeed: uint64(k), DelayMaxUS: 2000 * (k % 2)})
	}
	inputsBefore := treeDigest(root)
	var wg sync.WaitGroup
	sem := make(chan struct{}, 3)
	for k := range batches {
		wg.Add(1)
		go func(k int) {
			defer wg.Done()
			sem <- struct{}{}
			defer func() { <-sem }()
			ls := batches[k]
			sch := scheds[k]
			rr := NewRng(mix(seed, uint64(k)+5))
			if k >= len(batches)-nMixed {
				sch.Order = shuffled(rr, len(ls))
			} else {
				sch.Order = make([]int, len(ls))
				for i := range sch.Order {
					sch.Order[i] = i
				}
			}
			// references re-indexed for this batch
			lrefs := make([]soloRef, len(ls))
			for i, l := range ls {
				for j, a := range all {
					if a.ID == l.ID {
						lrefs[i] = refs[j]
					}
				}
			}
			tag := fmt.Sprintf("e%d", k)
			resRoot := filepath.Join(root, "res", tag)
			bf := filepath.Join(scratch, "batch_"+tag+".txt")
			writeBatchFile(bf, ls, sch.Order, resRoot)
			res := runBatch(bin, root, bf, sch, scratch, tag, 900)
			var ids []string
			for _, li := range sch.Order {
				ids = append(ids, ls[li].ID)
			}
			desc := fmt.Sprintf("batch %s (concurrent %d, delays %d:%dus, lines %s)", tag, sch.Concurrent, sch.DelaySeed, sch.DelayMaxUS, strings.Join(ids, " "))
			checkScheduleRun("C11", agg, ls, lrefs, sch, res, resRoot, desc)
			nf := 0
			for _, l := range ls {
				if l.Fail != "" {
					nf++
					agg.add("executions_with_fault_"+l.Fail, 1)
				}
			}
			agg.mu.Lock()
			if len(agg.samples) < 3 {
				agg.samples = append(agg.samples, map[string]interface{}{"batch": desc, "failing_lines": nf, "error_summary": res.Errors})
			}
			agg.mu.Unlock()
			os.RemoveAll(resRoot)
		}(k)
	}
	wg.Wait()
	if ok, why := sameHashes(inputsBefore, treeDigest(root)); !ok {
		agg.violate("C11", "run_wrote_outside_its_result_folder", "the project / weather / parameter trees changed during the batch executions: "+why)
	}
	agg.add("input_tree_files_compared", int64(len(inputsBefore)))
	agg.cov["distinct_completion_orders"] = int64(len(agg.orders))
	// termination on logical steps (in-process): fertiliser prediction at every latitude, day-length search loops bounded
	termCases := 240
	if tier == "thorough" {
		termCases = 6000
	}
	results, inconclusive := runCasesSharded("C11", tier, seed, termCases)
	results = append(results, agg.toCase("C11", seed))
	inconclusive = append(inconclusive, agg.inconcl...)
	floors := []string{"line_results_compared", "termination_runs", "termination_runs_with_prediction", "day_length_search_calls"}
	for _, c := range c11FaultClasses {
		floors = append(floors, "fault_class_reported_"+c, "executions_with_fault_"+c)
	}
	spec := checkSpec{Prop: "C11", Level: "fault_enumeration",
		Rule:   fmt.Sprintf("fault enumeration: every reported-error class %v x position {first, middle, last%s} x concurrency %v as a batch of valid lines plus the failing line(s), plus shuffled mixed batches of all valid and all failing lines, executed by the real hermes2go (-race, verif hooks, seeded delays); oracles: the process ends with the summary, the error summary lists exactly the failing log ids with the expected error text, every valid line's result files equal its solo reference, only the lines' own result folders appear, one run_start/run_end per log id, race detector silent. Termination: generated runs (incl. fertiliser prediction at latitudes -70..80) are bounded on logical steps (days simulated <= end-start+1, day-length search loops <= 2*366 iterations per call). evaluations = batch executions + termination runs; non-trivial = batch executions with >= 2 simultaneous runs + termination runs > 30 days", c11FaultClasses, map[bool]string{true: ", all-but-one", false: ""}[tier == "thorough"], concs),
		Floors: floors}
	return finishCheck(spec, tier, seed, results, inconclusive, t0, nil)
}

// ---------------------------------------------------------------------------------
// file pool history (child process built with -race)
// ---------------------------------------------------------------------------------

type poolResult struct {
	Cov          map[string]int64 `json:"cov"`
	Violations   []Violation      `json:"violations"`
	Inconclusive string           `json:"inconclusive"`
}

func runPoolHistory(seed uint64, tier string) *poolResult {
	out := &poolResult{Cov: map[string]int64{}}
	bin := filepath.Join(buildDir(), "vmon_race")
	if _, err := os.Stat(bin); err != nil {
		out.Inconclusive = "race build of the harness not available"
		return out
	}
	dir, _ := os.MkdirTemp(scratchBase, "pool")
	defer os.RemoveAll(dir)
	resPath := filepath.Join(dir, "pool.json")
	cmd := exec.Command("timeout", "-s", "QUIT", "600", bin, "poolhist", strconv.FormatUint(seed, 10), tier, resPath)
	cmd.Env = append(os.Environ(), "GORACE=halt_on_error=0 log_path="+filepath.Join(dir, "race"), "VERIF_SCRATCH="+dir)
	ob, err := cmd.CombinedOutput()
	if b, e := os.ReadFile(resPath); e == nil {
		json.Unmarshal(b, out)
	} else {
		out.Inconclusive = fmt.Sprintf("pool history child failed: %v %s", err, lastLines(string(ob), 4))
		if strings.Contains(string(ob), "concurrent map") {
			out.Inconclusive = ""
			out.Violations = append(out.Violations, Violation{Prop: "C03", Sig: "data_race:file_pool_concurrent_map", Msg: "file pool under concurrent access: " + lastLines(string(ob), 8)})
		}
	}
	matches, _ := filepath.Glob(filepath.Join(dir, "race.*"))
	for _, m := range matches {
		rb, _ := os.ReadFile(m)
		for _, block := range strings.Split(string(rb), "==================") {
			if strings.Contains(block, "WARNING: DATA RACE") && strings.Contains(block, "Hermes2Go/hermes") {
				out.Violations = append(out.Violations, Violation{Prop: "C03", Sig: "data_race:" + raceKey(block), Msg: "file pool history workload: " + trunc(block, 900)})
			}
		}
	}
	return out
}

func init() {
	otherChecks["C03"] = runC03
	otherChecks["C11"] = runC11
	// schedules are not reproducible bit for bit: a replay re-runs the whole check at the recorded tier and seed
	for _, p := range []string{"C03", "C11"} {
		p := p
		replayers[p] = func(dir string, meta []byte) int {
			var m struct {
				Tier  string `json:"tier"`
				Seed  uint64 `json:"seed"`
				Index int    `json:"index"`
			}
			json.Unmarshal(meta, &m)
			if m.Index < 2000000 {
				res := runCaseByIndex(p, m.Tier, m.Seed, m.Index, "")
				b, _ := json.MarshalIndent(res, "", " ")
				fmt.Println(string(b))
				if len(res.Violations) > 0 || res.Status == "panic" || res.Status == "fatal" {
					fmt.Printf("VIOLATION property=%s replay=%s\n", p, dir)
					return 1
				}
				return 0
			}
			return otherChecks[p](m.Tier, m.Seed)
		}
	}
}

const nVariantKinds = 18

// variantTokens: one or two settings for the batch line that differ from the project's configuration file
func variantTokens(sc *Scenario, r *Rng, v int) []string {
	var out []string
	used := map[int]bool{}
	want := 1 + r.Intn(2)
	for len(out) < want {
		c := r.Intn(nVariantKinds)
		if c == 9 {
			c = 0 // the parameter-folder variant only as the leading setting of its own variant line
		}
		if len(out) == 0 {
			c = v % nVariantKinds // the v-th variant of a batch starts with setting kind v
		}
		if used[c] {
			continue
		}
		used[c] = true
		switch c {
		case 0:
			alt := []int{1, 0, r.Intn(2)}[sc.GWMode]
			out = append(out, fmt.Sprintf("GroundWaterFrom=%d", alt))
		case 1:
			out = append(out, fmt.Sprintf("ETpot=%d", 1+(sc.ETpot+r.Intn(3))%4))
		case 2:
			out = append(out, fmt.Sprintf("CO2method=%d", 1+sc.CO2Method%3))
		case 3:
			out = append(out, fmt.Sprintf("LeachingDepth=%d", 1+r.Intn(sc.Soil.N())))
		case 4:
			out = append(out, fmt.Sprintf("Fertilization=%d", 30+r.Intn(120)))
		case 5:
			out = append(out, fmt.Sprintf("NDeposition=%d", r.Intn(60)))
		case 6:
			if sc.CropParamYml {
				out = append(out, "CropParameterFormat=txt")
			} else {
				out = append(out, "CropParameterFormat=yml")
			}
		case 7:
			out = append(out, fmt.Sprintf("CO2concentration=%d", 450+r.Intn(300)))
		case 8:
			out = append(out, fmt.Sprintf("GroundWaterPhase=%d", r.Intn(300)))
		case 9:
			// the shipped parameter folder with other numbers in the texture tables (see writeAltParamFolder)
			out = append(out, "parameter=param_alt")
		case 10:
			out = append(out, fmt.Sprintf("CorrectionPrecipitation=%d", 1-onoff(sc.PrecipCorr)))
		case 11:
			out = append(out, fmt.Sprintf("AnnualAverageTemperature=%.1f", r.Uniform(-2, 18)))
		case 12:
			out = append(out, fmt.Sprintf("KcFactorBareSoil=%.2f", r.Uniform(0.2, 1.1)))
		case 13:
			out = append(out, fmt.Sprintf("OrganicMatterMineralProportion=%.2f", r.Uniform(0.05, 0.3)))
		case 14:
			out = append(out, fmt.Sprintf("PotMineralisation=%d", 1+r.Intn(2)))
		case 15:
			out = append(out, fmt.Sprintf("Latitude=%.1f", r.Uniform(-60, 65)))
		case 16:
			out = append(out, fmt.Sprintf("CO2StomataInfluence=%d", r.Intn(2)), fmt.Sprintf("CO2concentration=%d", 500+r.Intn(300)))
		case 17:
			out = append(out, fmt.Sprintf("Altitude=%d", r.Intn(1500)), fmt.Sprintf("CoastDistance=%d", r.Intn(400)))
		}
	}
	return out
}

// projLineIndex: index of the first (plain) line of a project
func projLineIndex(lines []batchLine, project string) int {
	for i := range lines {
		if lines[i].Project == project {
			return i
		}
	}
	return 0
}

// sameHashesIgnoringNames compares the multisets of file hashes of two result folders
func sameHashesIgnoringNames(a, b map[string]string) (bool, string) {
	ca := map[string]int{}
	for _, h := range a {
		ca[h]++
	}
	for _, h := range b {
		ca[h]--
	}
	for _, n := range ca {
		if n != 0 {
			return false, "different contents"
		}
	}
	return true, ""
}

// writeAltParamFolder: a second parameter folder for the same project tree: every shipped file linked, except the
// hydraulic table, whose field capacities are 2 vol% lower for every texture and density class
func writeAltParamFolder(dir string) error {
	if err := linkParamFolder(dir, map[string]bool{"HYPAR.TRU": true}); err != nil {
		return err
	}
	b, err := os.ReadFile(filepath.Join(paramDir, "HYPAR.TRU"))
	if err != nil {
		return err
	}
	lines := strings.Split(string(b), "\n")
	for i, l := range lines {
		if i == 0 || len(l) < 12 {
			continue
		}
		f := strings.Fields(l[3:])
		if len(f) < 10 {
			continue
		}
		var nums []int
		ok := true
		for _, x := range f[:10] {
			v, e := strconv.Atoi(x)
			if e != nil {
				ok = false
				break
			}
			nums = append(nums, v)
		}
		if !ok {
			continue
		}
		for k := 0; k < 6; k++ { // field capacity and available field capacity: the wilting point stays
			if nums[k] > 4 {
				nums[k] -= 2
			}
		}
		cr := ""
		if strings.HasSuffix(l, "\r") {
			cr = "\r"
		}
		lines[i] = fmt.Sprintf("%-3s %2d %2d %2d %2d %2d %2d %2d %2d %2d %2d%s", l[0:3], nums[0], nums[1], nums[2], nums[3], nums[4], nums[5], nums[6], nums[7], nums[8], nums[9], cr)
	}
	return os.WriteFile(filepath.Join(dir, "HYPAR.TRU"), []byte(strings.Join(lines, "\n")), 0644)
}
