package main

import (
	"fmt"
	"github.com/zalf-rpm/Hermes2Go/hermes"
	"math"
	"os"
	"path/filepath"
	"strconv"
	"strings"
)

// paramDir: the shipped parameter folder of the repository under check (VERIF_REPO, default /repo)
var paramDir = repoDir() + "/examples/parameter"

func repoDir() string {
	if d := os.Getenv("VERIF_REPO"); d != "" {
		return d
	}
	return "/repo"
}

// buildDir: where build.sh put the binaries built from the repository under check (VERIF_BUILD, default <verif>/.build)
func buildDir() string {
	if d := os.Getenv("VERIF_BUILD"); d != "" {
		return d
	}
	return filepath.Join(verifDir, ".build")
}

// ---------------------------------------------------------------------------------
// Scenario: a complete, valid project tree + batch line, generated from a seed.
// ---------------------------------------------------------------------------------

type Horizon struct {
	Texture string  // 3 characters (may contain trailing blanks)
	LowerDM int     // lower boundary in dm (cumulative)
	LD      int     // bulk density class 1..5
	BD      float64 // measured bulk density (CSV only), 0 = use class
	Corg    float64 // %
	Stone   int     // %
	CN      int     // C/N ratio (0 = default)
	FC      int     // explicit values in vol %, 0 = table / PTF
	WP      int
	PS      int
	Sand    int
	Silt    int
	Clay    int
}

type SoilSpec struct {
	ID          string
	Horizons    []Horizon
	RootDepth   int
	MixedRoutes bool `json:",omitempty"` // some horizons with explicit FC / WP / PS, the others from the texture table
	TwoGroups   bool `json:",omitempty"` // top horizon from one texture group, all lower horizons from another
	DrainDep    int
	DrainFrac   float64
	GW          int // groundwater depth in dm from the soil file
	CSV         bool
}

func (s *SoilSpec) N() int { return s.Horizons[len(s.Horizons)-1].LowerDM }

type GWPoint struct {
	D     Date
	Level float64
}

type WeatherDay struct {
	D                                                        Date
	Tavg, Tmin, Tmax, Precip, Glob, Wind, RH, Sun, Verd, ET0 float64
	// which optional values are written as the "none" sentinel
	NoneTavg, NoneSun, NoneVerd bool
	NoneSunGap                  bool `json:",omitempty"` // part of a sunshine gap of two or three days (no adjacent value to take a mean from)
	// the (required) radiation / precipitation value is written as the sentinel: the model then takes 0 (C13 pairs only)
	NoneGlob, NonePrecip bool
}

type WeatherSpec struct {
	Layout        int // 0 one file per year, 1 multi-year CSV, 2 cz (day-of-year)
	Days          []WeatherDay
	NoneValue     float64
	NumHeader     int
	EndsMidYear   bool // the series stops some days after the last day the run needs, inside a year
	StartsMidYear bool // the series begins inside the start year, before the simulation start
	WindHeight    float64
	Altitude      float64
	HasSun        bool
	HasVerd       bool
	Code          string // fcode
	Folder        string
	CO2InFile     float64 // layout 2: CO2 column value (0 = no column)
	CO2InHeader   float64 `json:",omitempty"` // three-line header: CO2 concentration in the station line instead of the ----- placeholder
	ExactTavg     bool    // write the mean temperature with full precision (pairs with the layout that derives it from min/max)
}

type RotEntry struct {
	// automatic management (zero dates when the entry uses fixed dates)
	WinOpen    Date // sowing window of the automatic-management table in the sowing year
	WinClose   Date
	LatestHarv Date // latest harvest date of the table in the harvest year
	Crop       string
	Variety    string
	Sow        Date
	Harvest    Date
	Rex        int // % residues exported
	Yld        int
	AutOrg     int
}

type FertEvent struct {
	D      Date
	Amount int
	Type   string
}
type TillEvent struct {
	D     Date
	Depth int
	Type  int
}
type IrrEvent struct {
	D    Date
	MM   int
	Conc int
}

type OutCol struct {
	Format string
	Var    string
	I1, I2 int
	Width  int
	Mod    float64
	Align  string // "" = right
}

// OutStyle: file-level settings of the output configurations ("" / 0 = the harness defaults ',', ' ', 'n.a.', one header line)
type OutStyle struct {
	Sep       string
	Fill      string
	Na        string
	HeadLines int // number of header lines + 1 (0 = default = one header line)
}

func (o OutStyle) sep() string {
	if o.Sep == "" {
		return ","
	}
	return o.Sep
}
func (o OutStyle) fill() string {
	if o.Fill == "" {
		return " "
	}
	return o.Fill
}
func (o OutStyle) headLines() int {
	if o.HeadLines == 0 {
		return 1
	}
	return o.HeadLines - 1
}

// colIndex: position of the first column that shows the given variable (-1 if none)
func colIndex(cols []OutCol, v string) int {
	for i, c := range cols {
		if c.Var == v {
			return i
		}
	}
	return -1
}

type Scenario struct {
	Prop    string
	Seed    uint64
	Index   int
	Project string
	PlotNr  string
	Polygon string
	Field   string

	DateFormat    int
	DivideCentury int
	TightSplit    int  // +1 / -1: the century split sits at the edge of what keeps the dated inputs unambiguous
	Start         Date // harvest of the pre-crop = first simulated day
	End           Date
	AnnualDay     int
	AnnualMonth   int

	Soil       SoilSpec
	PTF        int
	GWMode     int // 0 polygon file hi/lo, 1 soil file, 2 time series
	GRHI, GRLO int
	GWPhase    int
	GWSeries   []GWPoint
	GWAligned  bool // the series was shifted so that an entry sits at the edge of the simulated period

	Weather WeatherSpec

	Rotation   []RotEntry
	RotCSV     bool
	Fert       []FertEvent
	Till       []TillEvent
	Irr        []IrrEvent
	IrrFlag    bool
	OtherField bool // add events of a second field to the files

	MeasCSV   bool
	MeasInit  bool // write one measurement record (initial values) for the field
	MeasDate  Date
	MeasN     [6]int
	MeasW     [6]float64
	MeasShort bool   `json:",omitempty"` // measurement table without the columns of the deeper layers
	MeasMode  string // "1" fraction of available water, "3" absolute
	InitSel   int

	ETpot                int
	CO2Method            int
	CO2Conc              float64
	CO2Stomata           int
	NDeposition          float64
	LeachDepth           int
	Latitude             float64
	Altitude             float64
	CoastDist            float64
	Fertilizat           float64
	OrgMinProp           float64
	KcBare               float64
	AnnualTemp           float64
	PotMin               int
	PrecipCorr           bool
	PrivateTexture       string            `json:",omitempty"` // a texture class that only the project's own parameter folder defines (rows copied from PrivateTextureLike); the first horizon uses it
	PrivateTextureLike   string            `json:",omitempty"`
	FileExt              string            `json:",omitempty"` // fileExtension=<ext> on the batch line (rotation, polygon, automan files carry it)
	GWId                 string            `json:",omitempty"` // gwId=<id> on the batch line selects the groundwater series
	freshRef             map[int]*freshRec // per day: parameters of the reference run with a forced re-evaluation (not serialised)
	OwnFertRows          []FertRow         `json:",omitempty"` // rows added to the fertiliser table of the project's own parameter folder
	OwnFertFront         []bool            `json:",omitempty"` // ... listed in front of the shipped rows (else behind them)
	ReducedTablesOnly    string            `json:",omitempty"` // "" = both texture tables lack the texture, else only the named one (PARCAP.TRU / HYPAR.TRU)
	DateSep              string            `json:",omitempty"` // separator inside the dates of the input files and of the configured end date ("" . / -)
	ReducedTablesWithout string            // the project runs with a parameter folder of its own whose texture tables lack this texture
	OwnNFunction         map[string]int    `json:",omitempty"` // YAML crop parameter file -> N-content function (7, 8, 9) it carries in the project's own parameter folder
	AliasCrops           map[string]string // crop code of the built-in table without a shipped parameter file -> shipped crop whose parameter file the project supplies under that name
	AlwaysPreco          bool              // write the monthly precipitation-correction table even if the correction is off (a batch line may switch it on)
	PrecoFactors         [12]float64
	// WeatherFault (C04): the weather input does not cover the whole simulation ("", ends_early, gap, missing_year, starts_late)
	WeatherFault            string
	FaultFrom               Date // first day without a record
	FaultTo                 Date // last day without a record
	OutInterval             int
	ResultFormat            int // 0 hermes fixed width, 1 csv
	ResultExt               string
	MgmtEvents              int
	AutoSow                 bool
	AutoFert                bool
	AutoIrr                 bool
	AutoHarvest             bool
	TillCollision           bool     `json:",omitempty"` // rewritten around the observed harvest: postponed tillage meets the next one
	RotationEndsInside      bool     `json:",omitempty"` // no rotation entries behind the last crop sown inside the period
	DeadlineOvertakesSowing bool     `json:",omitempty"` // automatic harvest only; a fixed sowing date just before the deadline of the standing crop
	PermanentAfterAnnual    bool     `json:",omitempty"` // a block of grass / alfalfa cuts follows annual crops
	Automan                 []string // lines of automan.txt (without header)
	AutoRows                map[string]*AutoRow
	CropParamYml            bool
	VirtualDate             string

	Tightened  bool // C16: rewritten around the observed first harvest (see c16Scenario)
	DailyCols  []OutCol
	OutStyle   OutStyle
	YearlyCols []OutCol
	CropCols   []OutCol

	ExtraArgs []string // extra key=value tokens on the batch line
	// Hot: the rarely taken choices of generator and file writers are taken with probability one half (see hotGen)
	Hot bool `json:",omitempty"`
	// WeatherStartsLate: the multi-year weather file begins after the simulation start (one project of the C03 batch sessions);
	// SisterWeatherFolder holds the complete series
	WeatherStartsLate   bool   `json:",omitempty"`
	SisterWeatherFolder string `json:",omitempty"`
	// SessionWarmup: a sister project (own fertiliser table with other contents) is run first in the same session (C10, 10 %)
	SessionWarmup bool `json:",omitempty"`
	// SoilClassicCols: the csv soil file keeps the columns of the classic file next to the documented ones (forced for one project of a batch session)
	SoilClassicCols bool `json:",omitempty"`
	// fault injection for C11: the polygon file may name another soil id / field id than the soil / rotation files know
	PolySID     string
	PolyFieldID string
	// FileOverrides: key -> YAML value text that replaces (or adds) the key in config.yml (decoy values for C14)
	FileOverrides map[string]string

	// state injection plan (in-process monitors only)
	Inject []Injection
}

type Injection struct {
	Day   int       // offset from start day
	WFrac []float64 // per layer fraction in [0,1]: WG = WMIN/3 + f*(W-WMIN/3); negative: WG = WMIN/3 * (1+f), an air-dry sample
	N     []float64 // per layer mineral N
	Rain  float64   // cm, <0 = leave
}

// ------------------------------- tables ------------------------------------------

type CropInfo struct {
	Code           string
	Winter         bool
	SowLo, SowHi   int
	HarvLo, HarvHi int
	Legume         bool
	Varieties      []string
}

var cropTable = []CropInfo{
	{"SM", false, 105, 140, 255, 300, false, nil},
	{"CCM", false, 105, 140, 255, 300, false, nil},
	{"SOY", false, 115, 150, 260, 300, true, []string{"0", "00", "000", "0000", "i", "ii", "iii"}},
	{"SW", false, 70, 110, 205, 245, false, nil},
	{"OA", false, 70, 110, 205, 240, false, nil},
	{"K", false, 95, 130, 240, 280, false, nil},
	{"ZR", false, 85, 120, 265, 320, false, []string{"chrnew"}},
	{"LUP", false, 80, 115, 215, 250, true, nil},
	{"WW", true, 255, 300, 195, 235, false, nil},
	{"WG", true, 250, 280, 180, 210, false, nil},
	{"WR", true, 250, 290, 195, 230, false, nil},
	{"TR", true, 255, 295, 195, 230, false, nil},
	{"WRA", true, 230, 255, 190, 215, false, nil},
}

// perennialTable: the shipped permanent crops as they appear in rotations under automatic management (sown in late
// summer, cut not later than early summer of the next year; a following cut is the same crop sown again)
var perennialTable = []CropInfo{
	{"AA", true, 240, 275, 150, 200, true, nil},
	{"GR", true, 235, 270, 145, 195, false, nil},
}

func cropInfo(code string) *CropInfo {
	for i := range cropTable {
		if cropTable[i].Code == code {
			return &cropTable[i]
		}
	}
	return nil
}

var textureList []string // textures present in both HYPAR.TRU and PARCAP.TRU (3 chars)

type FertRow struct {
	Name                              string
	Ntot, Ndir, Nfst, Nslo, NH4, Loss float64
}

var fertTable []FertRow

func loadTables() error {
	hy, err := os.ReadFile(paramDir + "/HYPAR.TRU")
	if err != nil {
		return err
	}
	pc, err := os.ReadFile(paramDir + "/PARCAP.TRU")
	if err != nil {
		return err
	}
	inHy := map[string]bool{}
	for i, l := range strings.Split(string(hy), "\n") {
		if i == 0 || len(l) < 3 {
			continue
		}
		inHy[strings.ToUpper(l[0:3])] = true
	}
	textureList = nil
	pcl := strings.Split(string(pc), "\n")
	for i := 0; i+1 < len(pcl); i += 2 {
		if len(pcl[i]) < 3 {
			continue
		}
		t := strings.ToUpper(pcl[i][0:3])
		if inHy[t] && strings.TrimSpace(t) != "" {
			textureList = append(textureList, t)
		}
	}
	if len(textureList) < 10 {
		return fmt.Errorf("too few textures parsed: %d", len(textureList))
	}
	ft, err := os.ReadFile(paramDir + "/FERTILIZ.TXT")
	if err != nil {
		return err
	}
	fertTable = nil
	for i, l := range strings.Split(string(ft), "\n") {
		if i == 0 {
			continue
		}
		tok := strings.Fields(l)
		if len(tok) < 7 {
			continue
		}
		var v [6]float64
		ok := true
		for k := 0; k < 6; k++ {
			f, err := strconv.ParseFloat(tok[k+1], 64)
			if err != nil {
				ok = false
			}
			v[k] = f
		}
		if ok {
			fertTable = append(fertTable, FertRow{tok[0], v[0], v[1], v[2], v[3], v[4], v[5]})
		}
	}
	if len(fertTable) < 5 {
		return fmt.Errorf("too few fertilisers parsed")
	}
	return nil
}

// fertRowOf: the row of the fertiliser table the project runs with (its own rows first)
func (sc *Scenario) fertRowOf(name string) *FertRow {
	for i := range sc.OwnFertRows {
		if sc.OwnFertRows[i].Name == name {
			return &sc.OwnFertRows[i]
		}
	}
	return fertRow(name)
}

func (sc *Scenario) ownFertRow(name string) *FertRow {
	for i := range sc.OwnFertRows {
		if sc.OwnFertRows[i].Name == name {
			return &sc.OwnFertRows[i]
		}
	}
	return nil
}

// redefineFertRow gives the project a fertiliser table of its own (parameter folder of its own) in which one fertiliser the
// schedule uses has other contents than in the shipped table: the table of the run's own parameter folder is the one that counts
func (sc *Scenario) redefineFertRow(rf *Rng) bool {
	if len(sc.Fert) == 0 {
		return false
	}
	base := sc.Fert[rf.Intn(len(sc.Fert))].Type
	if sc.ownFertRow(base) != nil || fertRow(base) == nil {
		return false
	}
	row := FertRow{Name: base, Ntot: float64(rf.Range(30, 900)) / 100, Ndir: float64(rf.Range(5, 95)) / 100, Nfst: float64(rf.Range(5, 60)) / 100,
		Nslo: float64(rf.Range(5, 40)) / 100, NH4: float64(rf.Range(0, 100)) / 100, Loss: float64(rf.Range(0, 30)) / 100}
	sc.OwnFertRows = append(sc.OwnFertRows, row)
	sc.OwnFertFront = append(sc.OwnFertFront, rf.Bool(0.5))
	return true
}

func fertRow(name string) *FertRow {
	// the model applies the LAST matching row? no: it scans all rows and every match overwrites -> last match wins
	var r *FertRow
	for i := range fertTable {
		if fertTable[i].Name == name {
			r = &fertTable[i]
		}
	}
	return r
}

// ------------------------------- generator ----------------------------------------

// Profile flags steer the distribution per property.
type Profile struct {
	Years          [2]int  // min,max simulated years
	HeavyRain      float64 // probability of a climate with extreme rain days
	Stones         float64 // probability of stony horizons
	Drain          float64 // probability of a drain
	ShallowGW      float64 // probability of groundwater inside/near the profile
	GWModes        []int
	PTFProb        float64
	ExplicitProb   float64
	Legume         float64 // bias to legumes
	FertMax        int
	TillMax        int
	IrrMax         int
	Layouts        []int
	ETMethods      []int
	LeachBottom    bool
	Measurement    float64
	Inject         float64
	AutoProb       float64
	MinLayers      int
	DateFormats    []int
	RandomOutCfg   bool
	PreStartEv     float64 // probability to add events dated before the start
	SameDayEv      float64
	NoneValues     float64 // probability of sentinel values in optional weather columns
	StartOffset    float64 // probability that the weather file starts before the start year
	ColdClimate    float64
	Crops          []string
	OutIntervals   []int
	TillDeep       bool
	NoMidYearStart bool    // the weather series never begins inside the start year (needed where it is also written one file per year)
	TillShallow    bool    // also draw tillage rows of depth 0 and 1-4 cm
	PolarProb      float64 // probability of a latitude beyond the polar circles
	ZeroRadProb    float64 // probability of a weather series without measured radiation (sunshine hours instead)
	Permanent      float64 // probability of a block of permanent-crop cuts (grass / alfalfa) early in the rotation
}

func defaultProfile() Profile {
	return Profile{
		Years: [2]int{2, 3}, HeavyRain: 0.4, Stones: 0.3, Drain: 0.4, ShallowGW: 0.4,
		GWModes: []int{0, 1, 1, 2}, PTFProb: 0.15, ExplicitProb: 0.2, Legume: 0.3,
		FertMax: 6, TillMax: 4, IrrMax: 4, Layouts: []int{0, 1, 1, 2}, ETMethods: []int{1, 2, 3, 3, 4, 5},
		LeachBottom: true, Measurement: 0.2, Inject: 0.3, AutoProb: 0, MinLayers: 1,
		DateFormats: []int{0, 1, 1, 2, 3}, NoneValues: 0.2, StartOffset: 0.2, ColdClimate: 0.25,
		OutIntervals: []int{1}, PreStartEv: 0.1, SameDayEv: 0.1, PolarProb: 0.03, ZeroRadProb: 0.2,
	}
}

func profileFor(prop string) Profile {
	p := defaultProfile()
	switch prop {
	case "C01", "C06":
		p.HeavyRain = 0.6
		p.Stones = 0.5
	case "C02", "C07":
		p.Permanent = 0.1 // cuts of grass / alfalfa (a perennial legume that is followed by itself)
		p.TillShallow = true
		p.AutoProb = 0.12 // automatic management too (fertiliser applied by demand, automatic irrigation)
		p.HeavyRain = 0.6
		p.Stones = 0.4
		p.MinLayers = 2
		p.Legume = 0.5
		p.Drain = 0.6
		p.ShallowGW = 0.5
	case "C08":
		p.ColdClimate = 0.4
		p.PolarProb = 0.25
		p.ZeroRadProb = 0.4
	case "C19":
		p.ColdClimate = 0.4
		p.Inject = 0.5
	case "C04":
		p.NoneValues = 0.6
		p.StartOffset = 0.5
		p.Years = [2]int{2, 5}
		p.Inject = 0
	case "C05":
		p.RandomOutCfg = true
		p.OutIntervals = []int{1, 1, 1, 2, 3, 7, 10, 30, 365, 0}
		p.Inject = 0
		p.Years = [2]int{1, 4}
	case "C10":
		p.TillShallow = true
		p.FertMax = 14
		p.TillMax = 10
		p.IrrMax = 12
		p.PreStartEv = 0.5
		p.SameDayEv = 0.5
		p.Inject = 0
		p.Measurement = 0
		p.AutoProb = 0.2
	case "C16":
		p.AutoProb = 0.8
		p.Inject = 0
		p.Years = [2]int{2, 4}
	case "C09":
		p.Years = [2]int{2, 3}
		p.Permanent = 0.15
		p.ZeroRadProb = 0.3 // growth driven by sunshine duration instead of measured radiation
		p.NoneValues = 0.5
	case "C20", "C15":
		p.GWModes = []int{0, 2, 2}
		p.ShallowGW = 0.7
	}
	return p
}

// GenScenario builds the scenario number idx of the list determined by (prop, seed).
func GenScenario(prop string, seed uint64, idx int) *Scenario {
	r := NewRng(mix(mix(seed, uint64(idx)), hashStr(prop)))
	p := profileFor(prop)
	return genWithProfile(prop, seed, idx, r, p)
}

// the simulation checks whose cases may be "hot" (not the paired and batch checks: their projects are built for specific comparisons)
var hotProps = map[string]bool{"C01": true, "C02": true, "C04": true, "C05": true, "C06": true, "C07": true, "C08": true, "C09": true, "C10": true, "C15": true, "C16": true, "C19": true, "C20": true}

func hashStr(s string) uint64 {
	var h uint64 = 1469598103934665603
	for i := 0; i < len(s); i++ {
		h ^= uint64(s[i])
		h *= 1099511628211
	}
	return h
}

func genWithProfile(prop string, seed uint64, idx int, r *Rng, p Profile) *Scenario {
	sc := &Scenario{Prop: prop, Seed: seed, Index: idx}
	if hotProps[prop] && NewRng(mix(mix(seed, uint64(idx)), 7777)).F() < 0.04 {
		sc.Hot = true
	}
	hotGen = sc.Hot
	defer func() { hotGen = false }()
	sc.Project = "vp"
	sc.PlotNr = strconv.Itoa(r.Range(1, 9999))
	sc.Polygon = "P" + strconv.Itoa(r.Range(1, 999))
	sc.Field = pickS(r, []string{"FA", "FLD1", "SOYSM1", "X9", "field_7"})

	// ---------------- time ----------------
	sc.DateFormat = pickI(r, p.DateFormats)
	nYears := r.Range(p.Years[0], p.Years[1])
	startYear := r.Range(1951, 2090-nYears)
	if r.Bool(0.3) {
		// make leap years / century boundary more likely
		startYear = pickI(r, []int{1979, 1980, 1995, 1996, 1999, 2000, 2003, 2004, 2019, 2020})
	}
	// century split such that all years involved are unambiguous for the short formats
	// years [startYear-1, startYear+nYears+2] must lie within [1900+c, 1999+c]
	lo := startYear - 2
	cMin := lo + nYears + 5 - 1999
	if cMin < 1 {
		cMin = 1
	}
	cMax := lo - 1900
	if cMax > 99 {
		cMax = 99
	}
	if cMin > cMax {
		cMin = cMax
	}
	sc.DivideCentury = r.Range(cMin, cMax)
	startDOY := r.Range(200, 300)
	if r.Bool(0.25) {
		startDOY = r.Range(1, yearLen(startYear))
	}
	if r3 := NewRng(mix(mix(seed, uint64(idx)), 101)); r3.Bool(0.06) {
		// calendar edges as simulation start: 1 / 2 January, 31 December, around the leap day
		startDOY = pickI(r3, []int{1, 1, 2, yearLen(startYear), 59, 60, 61})
	}
	sc.Start = Date{startYear, 1, 1}.AddDays(startDOY - 1)
	sc.AnnualDay, sc.AnnualMonth = r.Range(1, 28), r.Range(1, 12)
	if r.Bool(0.3) {
		sc.AnnualDay, sc.AnnualMonth = pickI(r, []int{30, 31}), pickI(r, []int{10, 12, 3})
		if sc.AnnualMonth != 12 && sc.AnnualMonth != 10 && sc.AnnualMonth != 3 {
			sc.AnnualDay = 30
		}
	}
	endYear := startYear + nYears
	endDOY := r.Range(1, 365)
	sc.End = Date{endYear, 1, 1}.AddDays(endDOY - 1)
	if nYears == 1 && sc.End.Zeit() < sc.Start.Zeit()+200 {
		sc.End = sc.Start.AddDays(200 + r.Intn(150))
	}
	// 4 % of the C04 / C05 cases: a window that starts in the last days of December and ends in the first days of January
	// (every estimate of "how many calendar years does the window touch" from its length in days is one short here)
	if rj := NewRng(mix(mix(seed, uint64(idx)), 1231231)); (prop == "C04" || prop == "C05") && rj.Bool(0.04) && nYears >= 2 {
		sc.Start = Date{startYear, 12, rj.Range(25, 31)}
		sc.End = Date{endYear + 1, 1, rj.Range(2, 7)}
		sc.AnnualDay, sc.AnnualMonth = 1, 1
		if rj.Bool(0.5) && sc.End.D > 3 {
			sc.AnnualDay = rj.Range(1, sc.End.D-1)
		}
		endYear++
	}
	// keep the annual output date strictly before the end date inside the end year (else the model
	// extends the run: known finding end_date_extension); a few cases keep the extension on purpose.
	annualInEndYear := Date{sc.End.Y, sc.AnnualMonth, sc.AnnualDay}
	// the daily state monitors (balances, bounds, crop state) also take 10 % of their cases with a prolonged run: the model
	// simulates the days up to the day after the annual output date like any other day
	keepLate := false
	if rl := NewRng(mix(mix(seed, uint64(idx)), 1111)); (prop == "C01" || prop == "C02" || prop == "C06" || prop == "C07" || prop == "C08" || prop == "C09" || prop == "C19") && rl.Bool(0.1) {
		keepLate = true
	}
	if annualInEndYear.Zeit() >= sc.End.Zeit() && !keepLate && !(prop == "C05" && r.Bool(0.15)) {
		// move the end date behind the annual date
		sc.End = annualInEndYear.AddDays(1 + r.Intn(20))
		if sc.End.Y != endYear {
			sc.End = Date{endYear, 12, 31}
			sc.AnnualDay, sc.AnnualMonth = 30, 11
		}
	}

	// 12 % of the projects write their dates with separators (31.12.2010, 12/31/2010, 31-12-10) in every dated input file and
	// in the configured end date - a spelling the date conversion supports
	if rd := NewRng(mix(mix(seed, uint64(idx)), 2121)); rd.Bool(0.12) && prop != "C14" {
		sc.DateSep = pickS(rd, []string{".", ".", "/", "-"})
	}
	// ---------------- soil ----------------
	genSoil(sc, r, p)

	// ---------------- groundwater ----------------
	sc.GWMode = pickI(r, p.GWModes)
	n := sc.Soil.N()
	if r.Bool(p.ShallowGW) {
		sc.Soil.GW = r.Range(1, n+3)
	} else {
		sc.Soil.GW = pickI(r, []int{25, 40, 60, 99})
	}
	sc.GRHI = sc.Soil.GW
	sc.GRLO = sc.GRHI + r.Range(0, 15)
	if r.Bool(0.1) {
		sc.GRLO = sc.GRHI
	}
	sc.GWPhase = pickI(r, []int{80, 80, 0, 30, 180, 270})
	// 2.5 %: the groundwater table at the soil surface (level exactly 0 dm: soil file 00, polygon file 00 / 00..04, a series
	// that starts from / returns to 0): the whole profile lies below the table
	rz := NewRng(mix(mix(seed, uint64(idx)), 808))
	gwZero := rz.Bool(0.025)
	if gwZero {
		sc.Soil.GW, sc.GRHI, sc.GRLO = 0, 0, pickI(rz, []int{0, 0, 1, 4})
	}
	if rx := NewRng(mix(mix(seed, uint64(idx)), 6161)); true {
		if rx.Bool(0.06) && prop != "C13" && prop != "C18" && prop != "C14" {
			sc.FileExt = pickS(rx, []string{"v2", "alt", "scn", "TXT2"})
		}
		if rx.Bool(0.2) && sc.GWMode == 2 {
			sc.GWId = pickS(rx, []string{"G77", "W01", "990"})
		}
	}
	if sc.GWMode == 2 {
		genGWSeries(sc, r)
		if gwZero {
			for i := range sc.GWSeries {
				if i%2 == 0 || rz.Bool(0.3) {
					sc.GWSeries[i].Level = 0
				}
			}
		}
	}

	// ---------------- config ----------------
	sc.ETpot = pickI(r, p.ETMethods)
	sc.CO2Method = r.Range(1, 3)
	sc.CO2Conc = float64(r.Range(300, 800))
	sc.CO2Stomata = r.Intn(2)
	sc.NDeposition = float64(r.Range(0, 60))
	sc.LeachDepth = n
	if !p.LeachBottom || (prop != "C02" && prop != "C07" && prop != "C14" && r.Bool(0.4)) {
		sc.LeachDepth = r.Range(1, n) // the N balance (C02) is stated for a leaching depth at the profile bottom; everything else must hold for any depth
	}
	sc.Latitude = float64(r.Range(-400, 680)) / 10
	if r.Bool(0.15) {
		sc.Latitude = float64(r.Range(-700, 800)) / 10
	}
	if r.Bool(p.PolarProb) {
		sc.Latitude = float64(r.Range(666, 800)) / 10 // polar day and polar night
		if r.Bool(0.3) {
			sc.Latitude = -float64(r.Range(666, 700)) / 10
		}
	}
	sc.Altitude = float64(r.Range(0, 1500))
	sc.CoastDist = float64(r.Range(0, 300))
	sc.Fertilizat = float64(pickI(r, []int{100, 100, 50, 150, 0, 80}))
	sc.OrgMinProp = pickFloat(r, []float64{0.13, 0.1, 0.2, 0.05})
	sc.KcBare = pickFloat(r, []float64{0.4, 0.6, 0.3, 0.65, 1.0})
	sc.AnnualTemp = float64(r.Range(-20, 250)) / 10
	sc.PotMin = r.Intn(3)
	sc.OutInterval = pickI(r, p.OutIntervals)
	sc.ResultFormat = r.Intn(2)
	sc.ResultExt = ""
	if r.Bool(0.3) {
		sc.ResultExt = pickS(r, []string{"csv", "RES", "txt", "out"})
	}
	sc.MgmtEvents = 1
	sc.CropParamYml = r.Bool(0.5)
	sc.VirtualDate = "--------"
	sc.InitSel = r.Range(1, 4)

	// ---------------- weather ----------------
	genWeather(sc, r, p)
	if prop == "C04" {
		if r.Bool(0.3) {
			sc.PrecipCorr = true
			for m := 0; m < 12; m++ {
				sc.PrecoFactors[m] = float64(r.Range(90, 135)) / 100
			}
		}
		if r.Bool(0.3) {
			genWeatherFault(sc, r)
		}
	}

	// ---------------- management ----------------
	genRotation(sc, r, p)
	genEvents(sc, r, p)
	if r.Bool(p.AutoProb) {
		genAuto(sc, r)
	}
	// C09 / C06 / C01, 5 % of the cases: harvest on demand with a deadline (automatic harvest only, sowing dates fixed), and a
	// following crop whose fixed sowing date lies 0-3 days BEFORE the deadline of the standing crop: when the crop is not ripe
	// earlier the deadline harvest overtakes the sowing date, which the model then has to move behind the harvest
	if rh := NewRng(mix(mix(seed, uint64(idx)), 4343)); (prop == "C09" || prop == "C06" || prop == "C01") && rh.Bool(0.05) && !sc.AutoSow && !sc.AutoHarvest && !sc.AutoFert && !sc.AutoIrr {
		save := *sc
		genAuto(sc, NewRng(mix(mix(seed, uint64(idx)), 4344)))
		sc.AutoSow, sc.AutoIrr, sc.AutoFert, sc.AutoHarvest = false, false, false, true
		ok := false
		for i := 2; i < len(sc.Rotation) && !ok; i++ {
			prev, cur := &sc.Rotation[i-1], &sc.Rotation[i]
			if isPerennial(prev.Crop) || isPerennial(cur.Crop) || prev.LatestHarv.Y == 0 || prev.LatestHarv.Zeit() >= sc.End.Zeit()-60 || sc.AutoRows[prev.Crop] == nil || sc.AutoRows[prev.Crop].FixedHarvest {
				continue
			}
			sow := prev.LatestHarv.AddDays(-rh.Range(0, 3))
			if sow.Zeit() <= prev.Sow.Zeit()+60 || sow.Zeit() >= cur.Harvest.Zeit()-60 {
				continue
			}
			cur.Sow = sow
			if prev.Harvest.Zeit() >= sow.Zeit() {
				prev.Harvest = sow.AddDays(-1 - rh.Range(0, 5))
			}
			if prev.Harvest.Zeit() <= prev.Sow.Zeit() {
				continue
			}
			ok = true
		}
		if ok {
			sc.Till = nil
			sc.rebuildAutoman()
			sc.DeadlineOvertakesSowing = true
		} else {
			*sc = save
		}
	}
	// a fifth of the rotations end with the last crop that is sown inside the period (no further entries behind it): the crop
	// harvested last is then the last line of the rotation file
	// (not for C10: behind the last entry the model assumes a phantom crop sown a year after the last sowing, and a tillage
	// dated later than that is postponed for ever under automatic harvest - a schedule beyond the end of the rotation is not
	// what C10 quantifies over)
	if rt := NewRng(mix(mix(seed, uint64(idx)), 1212)); rt.Bool(0.2) && prop != "C10" {
		last := len(sc.Rotation) - 1
		for last > 1 {
			e := sc.Rotation[last]
			start := e.Sow
			if e.WinOpen.Y != 0 && e.WinOpen.Zeit() < start.Zeit() {
				start = e.WinOpen
			}
			if start.Zeit() <= sc.End.Zeit() {
				break
			}
			last--
		}
		if last >= 1 && last < len(sc.Rotation)-1 {
			sc.Rotation = sc.Rotation[:last+1]
			sc.RotationEndsInside = true
		}
	}

	// ---------------- measurement (initial values) ----------------
	sc.MeasCSV = r.Bool(0.5)
	if r.Bool(p.Measurement) {
		sc.MeasInit = true
		sc.MeasDate = sc.Start.AddDays(r.Range(0, 200))
		for i := 0; i < 6; i++ {
			sc.MeasN[i] = r.Range(0, 90)
			sc.MeasW[i] = float64(r.Range(5, 100)) / 100
		}
		sc.MeasMode = "1"
		sc.MeasShort = NewRng(mix(mix(seed, uint64(idx)), 3232)).Bool(0.33)
		// a fifth of the measurement files give the water contents as absolute volumetric ("3") or gravimetric ("2") values
		// instead of fractions of the available water (only for soils without stones and without explicit / transfer-function
		// parameters, whose pore volume can be small: a measured content must fit into the pores)
		if rm := NewRng(mix(mix(seed, uint64(idx)), 3131)); rm.Bool(0.2) && sc.PTF == 0 {
			ok := true
			for _, h := range sc.Soil.Horizons {
				if h.Stone > 0 || h.FC > 0 {
					ok = false
				}
			}
			if ok {
				sc.MeasMode = pickS(rm, []string{"3", "2"})
				for i := 0; i < 6; i++ {
					sc.MeasW[i] = float64(rm.Range(80, 250)) / 1000
					if sc.MeasMode == "2" {
						sc.MeasW[i] = float64(rm.Range(50, 150)) / 1000
					}
				}
			}
		}
	}

	// ---------------- output configurations ----------------
	genOutputConfigs(sc, r, p)

	// ---------------- state injection ----------------
	if r.Bool(p.Inject) {
		k := r.Range(1, 4)
		total := sc.End.Zeit() - sc.Start.Zeit()
		for i := 0; i < k; i++ {
			inj := Injection{Day: r.Range(3, maxi(4, total-2)), Rain: -1}
			mode := r.Intn(4)
			inj.WFrac = make([]float64, n)
			inj.N = make([]float64, n)
			for z := 0; z < n; z++ {
				switch mode {
				case 0: // nearly dry
					inj.WFrac[z] = r.Uniform(0, 0.1)
				case 1: // nearly full
					inj.WFrac[z] = r.Uniform(0.9, 1)
				default:
					inj.WFrac[z] = r.F()
				}
				inj.N[z] = math.Floor(r.Uniform(0, 60)*100) / 100
				if r.Bool(0.2) {
					inj.N[z] = 0
				}
			}
			if r.Bool(0.4) {
				inj.Rain = float64(r.Range(0, 200)) / 10
			}
			if r8 := NewRng(mix(mix(seed, uint64(idx)), uint64(4000+i))); r8.Bool(0.15) {
				// air-dry top soil (a sampled water content below a third of the wilting point) and next to no rain that day
				for z := 0; z < n && z < r8.Range(1, 3); z++ {
					inj.WFrac[z] = -r8.Uniform(0.05, 0.7)
				}
				inj.Rain = float64(r8.Range(0, 3)) / 100
			}
			sc.Inject = append(sc.Inject, inj)
		}
	}
	tightenCenturySplit(sc, NewRng(mix(mix(seed, uint64(idx)), 1900)))
	if prop == "C02" || prop == "C07" || prop == "C06" || prop == "C09" || prop == "C08" {
		// the N-content functions 7, 8 and 9 of the crop model are used by no shipped parameter file: 5 % of the cases grow
		// their first crop with a parameter file of the project's own - the shipped YAML file with another N function
		if r9 := NewRng(mix(mix(seed, uint64(idx)), 789)); r9.Bool(0.05) && len(sc.Rotation) > 1 && len(sc.AliasCrops) == 0 && sc.ReducedTablesWithout == "" {
			e := &sc.Rotation[1]
			if ci := cropInfo(e.Crop); ci != nil && !ci.Legume && !isPerennial(e.Crop) {
				sc.OwnNFunction = map[string]int{cropParamFileName(e.Crop, e.Variety, true): pickI(r9, []int{7, 8, 9})}
				sc.CropParamYml = true
			}
		}
	}
	if prop == "C02" || prop == "C07" || prop == "C06" {
		// built-in crop codes whose growth parameters are not shipped (field bean, spring barley, oat 'H', pea, maize 'M'): the
		// project supplies the parameter file itself (a copy of a related shipped crop); 6 % of the cases grow one as first crop
		if r5 := NewRng(mix(mix(seed, uint64(idx)), 77)); r5.Bool(0.06) && len(sc.Rotation) > 1 && !sc.AutoSow && !sc.AutoHarvest && !sc.AutoFert && !sc.AutoIrr {
			alias := map[string][]string{"SOY": {"AB", "ERB"}, "LUP": {"ERB", "AB"}, "SW": {"SG"}, "OA": {"H"}, "SM": {"M"}, "CCM": {"M"}}
			e := &sc.Rotation[1]
			if as, ok := alias[e.Crop]; ok {
				a := as[r5.Intn(len(as))]
				sc.AliasCrops = map[string]string{a: e.Crop}
				e.Crop, e.Variety = a, ""
			}
		}
	}
	if prop == "C05" {
		// calendar edges as annual output date: end of February, 1 March, the turn of the year, ends of 30-day months
		if r2 := NewRng(mix(mix(seed, uint64(idx)), 2802)); r2.Bool(0.2) {
			dm := [][2]int{{28, 2}, {1, 3}, {1, 1}, {31, 12}, {30, 4}, {30, 6}, {31, 1}, {27, 2}}[r2.Intn(8)]
			ad := Date{sc.End.Y, dm[1], dm[0]}
			// keep the relation of the annual date to the end date that the generator chose (before / not before the end)
			old := Date{sc.End.Y, sc.AnnualMonth, sc.AnnualDay}
			if (old.Zeit() >= sc.End.Zeit()) == (ad.Zeit() >= sc.End.Zeit()) {
				sc.AnnualDay, sc.AnnualMonth = dm[0], dm[1]
			}
		}
	}
	return sc
}

// tightenCenturySplit: in 40 % of the scenarios with a two-digit-year date format the century split is moved to the
// edge of what keeps every dated input unambiguous: the split equals the two-digit year of the earliest date (that year
// is then the first one read as 19xx) or exceeds the two-digit year of the latest date by one.
func tightenCenturySplit(sc *Scenario, r *Rng) {
	if sc.DateFormat != 0 && sc.DateFormat != 2 {
		return
	}
	if !r.Bool(0.4) {
		return
	}
	cLow, cHigh, ok := sc.centurySplitRange()
	if !ok {
		return
	}
	if r.Bool(0.5) {
		sc.DivideCentury = cHigh
		sc.TightSplit = 1
	} else {
		sc.DivideCentury = cLow
		sc.TightSplit = -1
	}
}

// refitCenturySplit: a scenario with a tight split whose dates were changed after generation keeps its split at the
// (new) edge; called when the scenario is written to disk
func (sc *Scenario) refitCenturySplit() {
	cLow, cHigh, ok := sc.centurySplitRange()
	if !ok {
		return
	}
	if sc.TightSplit == 0 {
		// an ordinary split must still keep every dated input unambiguous (a groundwater series shifted as a whole may
		// begin years before the simulation)
		if sc.DivideCentury > cHigh {
			sc.DivideCentury = cHigh
		}
		if sc.DivideCentury < cLow {
			sc.DivideCentury = cLow
		}
		return
	}
	if sc.TightSplit > 0 {
		sc.DivideCentury = cHigh
	} else {
		sc.DivideCentury = cLow
	}
}

// centurySplitRange: the century splits that keep every dated input of the scenario unambiguous
func (sc *Scenario) centurySplitRange() (cLow, cHigh int, ok bool) {
	lo, hi := sc.Start.Y, sc.End.Y+2 // the run may be prolonged beyond the end date; dates derived from it
	see := func(d Date) {
		if d.Y == 0 {
			return
		}
		if d.Y < lo {
			lo = d.Y
		}
		if d.Y > hi {
			hi = d.Y
		}
	}
	for _, e := range sc.Rotation {
		see(e.Sow)
		see(e.Harvest)
		see(e.WinOpen)
		see(e.WinClose)
		see(e.LatestHarv)
	}
	for _, e := range sc.Fert {
		see(e.D)
	}
	for _, e := range sc.Till {
		see(e.D)
	}
	for _, e := range sc.Irr {
		see(e.D)
	}
	for _, e := range sc.GWSeries {
		see(e.D)
	}
	see(sc.MeasDate)
	if hi-lo > 98 || lo < 1901 {
		return 0, 0, false
	}
	cLow = hi - 1999  // smallest admissible split: the latest year is 1999+split
	cHigh = lo - 1900 // largest admissible split: the earliest year is 1900+split
	if cLow < 1 {
		cLow = 1
	}
	if cHigh > 99 {
		cHigh = 99
	}
	return cLow, cHigh, cLow <= cHigh
}

func pickFloat(r *Rng, xs []float64) float64 { return xs[r.Intn(len(xs))] }

func genSoil(sc *Scenario, r *Rng, p Profile) {
	s := &sc.Soil
	s.ID = fmt.Sprintf("%03d", r.Range(1, 990)) // 998 is the soil of the decoy field in the generated files
	s.CSV = r.Bool(0.7)
	nLayers := r.Range(maxi(p.MinLayers, 1), 20)
	if r.Bool(0.5) {
		nLayers = pickI(r, []int{maxi(p.MinLayers, 2), 3, 5, 10, 15, 20, 20})
	}
	nHor := mini(r.Range(1, 6), nLayers)
	// horizon boundaries
	bounds := map[int]bool{nLayers: true}
	for len(bounds) < nHor {
		bounds[r.Range(1, nLayers)] = true
	}
	var bl []int
	for i := 1; i <= nLayers; i++ {
		if bounds[i] {
			bl = append(bl, i)
		}
	}
	route := 0 // 0 table, 1 explicit, 2 PTF
	if r.Bool(p.PTFProb) {
		route = 2
		sc.PTF = r.Range(1, 4)
	} else if r.Bool(p.ExplicitProb) {
		route = 1
	}
	stony := r.Bool(p.Stones)
	for _, b := range bl {
		h := Horizon{LowerDM: b}
		h.Texture = textureList[r.Intn(len(textureList))]
		h.LD = r.Range(1, 5)
		h.Corg = float64(r.Range(0, 600)) / 100
		if r.Bool(0.6) {
			h.Corg = float64(r.Range(5, 250)) / 100
		}
		if stony {
			h.Stone = r.Range(0, 90)
		}
		if h.Texture[0] == 'H' && s.CSV {
			// a peat horizon given with its measured bulk density: 0.15 - 0.6 g/cm3 (the density classes start at 1.1)
			if rb := NewRng(mix(mix(sc.Seed, uint64(sc.Index)), uint64(1700+b))); rb.Bool(0.6) {
				h.BD = float64(rb.Range(15, 60)) / 100
			}
		}
		if h.Texture[0] == 'H' && route == 0 {
			// (texture-table route only: the transfer functions are made for mineral soils) a peat horizon mostly carries the organic carbon of peat (the potential mineralisation has branches of its own
			// above 5 % and above 14 %)
			if rc := NewRng(mix(mix(sc.Seed, uint64(sc.Index)), uint64(1500+b))); rc.Bool(0.7) {
				h.Corg = float64(rc.Range(60, 450)) / 10 // one decimal: the fixed-width soil file has four characters for it
			}
		}
		h.CN = pickI(r, []int{0, 10, 10, 8, 12, 15})
		if s.CSV && r.Bool(0.3) {
			h.BD = float64(r.Range(90, 200)) / 100
		}
		// texture fractions (needed for PTF, harmless otherwise)
		h.Clay = r.Range(5, 60)
		h.Sand = r.Range(5, mini(85, 95-h.Clay-5))
		h.Silt = 100 - h.Clay - h.Sand
		if h.Silt < 5 {
			h.Silt = 5
			h.Sand = 100 - h.Clay - h.Silt
		}
		switch route {
		case 1:
			h.WP = r.Range(2, 35)
			h.FC = r.Range(h.WP+2, mini(h.WP+30, 60))
			h.PS = r.Range(h.FC, mini(h.FC+25, 75))
			// 10 % of the mineral horizons of a csv soil file with explicit capacities: compacted till / dense gravelly subsoil, given
			// with its measured density of 2.0 - 2.4 g/cm3 and the small pore volume that goes with it (pore volume = 1 - density /
			// 2.65, so the water content never exceeds the pore space the density leaves); the density classes end at 1.85, and
			// the heat-diffusion number of the soil temperature scheme is largest here
			if rd := NewRng(mix(mix(sc.Seed, uint64(sc.Index)), uint64(2100+b))); s.CSV && h.Texture[0] != 'H' && rd.Bool(0.1) {
				h.PS = rd.Range(8, 24)
				h.WP = rd.Range(2, h.PS-6)
				h.FC = rd.Range(h.WP+2, h.PS)
				h.BD = math.Floor((2.65*(1-float64(h.PS)/100)-float64(rd.Range(0, 5))/100)*100) / 100
			}
		case 2:
			// pore volume must be given and not below the PTF field capacity
			fc := ptfFC(sc.PTF, h.Corg, float64(h.Clay), float64(h.Silt), float64(h.Sand))
			h.PS = int(math.Ceil(fc*100)) + r.Range(1, 15)
			if h.PS > 90 {
				h.PS = 90
			}
			// a third of the transfer-function horizons give the pore volume as it was measured / taken from a table - anywhere
			// above the wilting point the function yields, also BELOW its field capacity (the model has to keep FC <= PS itself)
			if rq := NewRng(mix(mix(sc.Seed, uint64(sc.Index)), uint64(1900+b))); rq.Bool(0.33) {
				var wp float64
				switch sc.PTF {
				case 1:
					_, wp = hermes.PTF1(h.Corg, float64(h.Clay), float64(h.Silt))
				case 2:
					_, wp = hermes.PTF2(h.Corg, float64(h.Clay), float64(h.Silt))
				case 3:
					_, wp = hermes.PTF3(h.Corg, float64(h.Clay), float64(h.Silt))
				default:
					_, wp = hermes.PTF4(h.Corg, float64(h.Clay), float64(h.Sand))
				}
				lo := int(math.Ceil(wp*100)) + 3
				if lo < 28 {
					lo = 28
				}
				if lo < 60 {
					h.PS = rq.Range(lo, 60)
				}
			}
		}
		s.Horizons = append(s.Horizons, h)
	}
	// 10 % of the profiles with two or more horizons are built from two texture groups (sand S, silt U, loam L, clay T, peat H:
	// the parameter lookup treats each group in its own branch): the top horizon from one group, ALL lower horizons from
	// another one - mineral soil over peat, peat over sand, clay over sand ...
	if rt := NewRng(mix(mix(sc.Seed, uint64(sc.Index)), 1414)); len(s.Horizons) >= 2 && rt.Bool(0.1) {
		groups := map[byte][]string{}
		for _, t := range textureList {
			groups[t[0]] = append(groups[t[0]], t)
		}
		keys := []byte{'S', 'U', 'L', 'T', 'H'}
		a := keys[rt.Intn(len(keys))]
		b := keys[rt.Intn(len(keys))]
		for b == a {
			b = keys[rt.Intn(len(keys))]
		}
		if rt.Bool(0.4) {
			b = 'H' // peat below
			for a == 'H' {
				a = keys[rt.Intn(len(keys))]
			}
		}
		if len(groups[a]) > 0 && len(groups[b]) > 0 {
			s.Horizons[0].Texture = pickS(rt, groups[a])
			for k := 1; k < len(s.Horizons); k++ {
				s.Horizons[k].Texture = pickS(rt, groups[b])
			}
			s.TwoGroups = true
		}
	}
	// the hydraulic route is decided per horizon by FC > 0: mostly uniform (all or none); a quarter of the explicit-value
	// profiles with two or more horizons are mixed - some horizons carry their own values, the others (in half of the mixed
	// profiles the lowest one, which decides how the daily groundwater update treats the whole profile) come from the table
	if rm := NewRng(mix(mix(sc.Seed, uint64(sc.Index)), 9393)); route == 1 && len(s.Horizons) >= 2 && rm.Bool(0.25) {
		n := len(s.Horizons)
		clear := map[int]bool{}
		if rm.Bool(0.5) {
			clear[n-1] = true
		}
		for k := 0; k < n-1; k++ {
			if rm.Bool(0.3) {
				clear[k] = true
			}
		}
		if len(clear) == 0 {
			clear[rm.Intn(n)] = true
		}
		if len(clear) == n {
			delete(clear, rm.Intn(n-1))
		}
		for k := range clear {
			s.Horizons[k].FC, s.Horizons[k].WP, s.Horizons[k].PS = 0, 0, 0
		}
		s.MixedRoutes = true
	}
	s.RootDepth = r.Range(1, 20)
	if r.Bool(p.Drain) {
		s.DrainDep = r.Range(1, nLayers)
		s.DrainFrac = pickFloat(r, []float64{0.1, 0.25, 0.5, 0.75, 1.0, 0.0, 0.33})
	} else {
		s.DrainDep = pickI(r, []int{0, 20, 20})
		s.DrainFrac = 0
	}
}

// same formulas as the documented transfer functions (used only to choose an admissible pore volume)
func ptfFC(ptf int, c, clay, silt, sand float64) float64 {
	switch ptf {
	case 1:
		return 0.2449 - 0.1887*(1/(c+1)) + 0.004527*clay + 0.001535*silt + 0.001442*silt*(1/(c+1)) - 0.0000511*silt*clay + 0.0008676*clay*(1/(c+1))
	case 2:
		return (0.46*clay + 0.3045*silt + 2.0703*c) / 100
	case 3:
		return (0.6681*clay + 0.2614*silt + 2.215*c) / 100
	default:
		return 0.6 // Rawls: chosen generously
	}
}

func genGWSeries(sc *Scenario, r *Rng) {
	n := sc.Soil.N()
	k := r.Range(1, 14)
	d := sc.Start.AddDays(-r.Range(-200, 400)) // may start before or after the simulation start
	level := float64(r.Range(10, (n+5)*10)) / 10
	// a quarter of the series move among round levels down to 45 dm, i.e. also exactly on the depth classes of the hydraulic
	// table (8, 9, 20, 30, 35 dm) and below the profile, with short steps so that a level is left and reached again
	r6 := NewRng(mix(mix(sc.Seed, uint64(sc.Index)), 3535))
	classy := r6.Bool(0.25)
	round := []float64{8, 9, 20, 30, 35, 7.9, 8.1, 19.9, 20.1, 29.9, 30.1, 34, 34.9, 35.1, 36, 40, 45, 25, 12}
	for i := 0; i < k; i++ {
		sc.GWSeries = append(sc.GWSeries, GWPoint{d, level})
		d = d.AddDays(r.Range(1, 200))
		switch r.Intn(4) {
		case 0: // plateau
		case 1: // revisit an earlier level
			level = sc.GWSeries[r.Intn(len(sc.GWSeries))].Level
		default:
			level = float64(r.Range(5, (n+8)*10)) / 10
		}
		if classy {
			level = round[r6.Intn(len(round))]
			if r6.Bool(0.5) {
				d = sc.GWSeries[len(sc.GWSeries)-1].D.AddDays(r6.Range(1, 3)) // a step within a few days: the level itself is used
			}
		}
	}
	if classy && len(sc.GWSeries) < 8 {
		for len(sc.GWSeries) < 10 {
			last := sc.GWSeries[len(sc.GWSeries)-1]
			sc.GWSeries = append(sc.GWSeries, GWPoint{last.D.AddDays(r6.Range(1, 40)), round[r6.Intn(len(round))]})
		}
	}
	// a third of the series are shifted as a whole so that one of their entries (the first, the last or any) sits on, one
	// day after, one or two days before the simulation start, or around the end date
	if r.Bool(0.35) {
		node := sc.GWSeries[[]int{0, len(sc.GWSeries) - 1, r.Intn(len(sc.GWSeries))}[r.Intn(3)]].D.Zeit()
		target := sc.Start.Zeit() + r.Range(-2, 1)
		if sc.End.Y != 0 && r.Bool(0.3) {
			target = sc.End.Zeit() + r.Range(-1, 1)
		}
		shift := target - node
		for i := range sc.GWSeries {
			sc.GWSeries[i].D = sc.GWSeries[i].D.AddDays(shift)
		}
		sc.GWAligned = true
	}
}

func genWeather(sc *Scenario, r *Rng, p Profile) {
	w := &sc.Weather
	w.Layout = pickI(r, p.Layouts)
	w.NoneValue = pickFloat(r, []float64{-99.9, -99, 999.9})
	w.NumHeader = 1
	if w.Layout != 2 && r.Bool(0.4) {
		w.NumHeader = 3
	} else if r.Bool(0.3) {
		w.NumHeader = 2
	}
	w.WindHeight = pickFloat(r, []float64{2, 2, 10, 3, 1.5})
	w.Altitude = sc.Altitude
	// the station line of a three-line header carries its own altitude: in half of those files it differs from the configured
	// one (the header wins), in a sixth it lies below sea level (written with a leading minus sign)
	if rc2 := NewRng(mix(mix(sc.Seed, uint64(sc.Index)), 4242)); w.NumHeader == 3 && rc2.Bool(0.3) {
		w.CO2InHeader = float64(rc2.Range(330, 750)) // the station line also carries the CO2 concentration of the series
	}
	if ra := NewRng(mix(mix(sc.Seed, uint64(sc.Index)), 4141)); w.NumHeader == 3 && ra.Bool(0.5) {
		w.Altitude = float64(ra.Range(0, 3000))
		if ra.Bool(0.33) {
			w.Altitude = -float64(ra.Range(1, 420))
		}
	}
	w.Code = pickS(r, []string{"W1", "109_120", "ST", "NEU"})
	w.Folder = pickS(r, []string{"wx", "historical", "scen_a"})
	w.HasSun = r.Bool(0.5)
	w.HasVerd = r.Bool(0.5) || sc.ETpot == 1
	if sc.ETpot == 5 {
		w.Layout = 0 // only the per-year layout carries ET0
	}
	if w.Layout == 2 && r.Bool(0.5) {
		w.CO2InFile = float64(r.Range(330, 700))
	}
	zeroRad := r.Bool(p.ZeroRadProb)
	if zeroRad {
		w.HasSun = true
	}
	firstYear := sc.Start.Y
	if w.Layout != 0 && r.Bool(p.StartOffset) {
		firstYear -= r.Range(1, 2)
	}
	lastYear := sc.End.Y + 1 // cover the (possibly extended) last day
	// 15 % of the multi-year series stop some days after the last day the run can need instead of running on to the end
	// of the following year (the readers accept a partial last year)
	lastDay := Date{}
	if r7 := NewRng(mix(mix(sc.Seed, uint64(sc.Index)), 1231)); w.Layout != 0 && !p.NoMidYearStart && r7.Bool(0.15) {
		// only where the run is not prolonged beyond its end date (annual output date of the end year before the end date)
		if a := (Date{sc.End.Y, sc.AnnualMonth, sc.AnnualDay}); a.Zeit() < sc.End.Zeit() {
			lastDay = sc.End.AddDays(r7.Range(4, 40))
			// 40 % of them: the last year is all but complete - the series stops on one of the last days of December of
			// the end year (a leap year then holds exactly 365 records when it stops on 30 December)
			if dec := (Date{sc.End.Y, 12, pickI(r7, []int{30, 30, 31, 29, 28, 25})}); r7.Bool(0.4) && dec.Zeit() >= sc.End.Zeit()+2 {
				lastDay = dec
			}
			w.EndsMidYear = true
		}
	}
	// climate
	cold := r.Bool(p.ColdClimate)
	hot := !cold && r.Bool(0.2)
	mean, amp := 9.0, 10.0
	if cold {
		mean, amp = -3, 22
	} else if hot {
		mean, amp = 26, 9
	}
	south := sc.Latitude < 0
	heavy := r.Bool(p.HeavyRain)
	wetP := r.Uniform(0.15, 0.6)
	meanRain := r.Uniform(2, 12)
	droughtStart, droughtLen := -1, 0
	if r.Bool(0.4) {
		droughtStart = r.Range(0, 365)
		droughtLen = r.Range(30, 150)
	}
	noise := 0.0
	dayIdx := 0
	firstDate := Date{firstYear, 1, 1}
	if w.Layout != 0 && r.Bool(0.2) && firstYear < sc.Start.Y {
		firstDate = firstDate.AddDays(r.Range(0, 300)) // series that does not start on 1 January
	}
	if r4 := NewRng(mix(mix(sc.Seed, uint64(sc.Index)), 303)); w.Layout != 0 && !p.NoMidYearStart && firstYear == sc.Start.Y && sc.Start.DOY() > 30 && r4.Bool(0.2) {
		// a series that begins inside the start year, some days or months before the simulation starts
		firstDate = firstDate.AddDays(r4.Range(1, sc.Start.DOY()-15))
		w.StartsMidYear = true
	}
	for d := firstDate; d.Y <= lastYear && (lastDay.Y == 0 || d.Zeit() <= lastDay.Zeit()); d = d.AddDays(1) {
		doy := float64(d.DOY())
		ph := 2 * math.Pi * (doy - 110) / 365
		if south {
			ph += math.Pi
		}
		noise = 0.7*noise + 3*r.Norm()
		tavg := mean + amp*math.Sin(ph) + noise
		if tavg < -40 {
			tavg = -40
		}
		if tavg > 47 {
			tavg = 47
		}
		tmin := tavg - r.Uniform(0.5, 8)
		tmax := tavg + r.Uniform(0.5, 8)
		rain := 0.0
		inDrought := droughtStart >= 0 && (dayIdx%365) >= droughtStart && (dayIdx%365) < droughtStart+droughtLen
		if !inDrought && r.Bool(wetP) {
			rain = -meanRain * math.Log(1-r.F()*0.999)
			if heavy && r.Bool(0.03) {
				rain = r.Uniform(40, 300)
			}
		}
		glob := maxf(0.4, 14+12*math.Sin(ph)) * r.Uniform(0.2, 1.0)
		if zeroRad {
			glob = 0
		}
		wind := math.Exp(r.Norm()*0.8 + 0.6)
		if r.Bool(0.1) {
			wind = r.Uniform(0, 0.5)
		}
		if wind > 25 {
			wind = 25
		}
		rh := r.Uniform(30, 100)
		sun := maxf(0, r.Uniform(-3, 14))
		verd := r.Uniform(0, 18)
		et0 := maxf(0, r.Uniform(-0.5, 7))
		wd := WeatherDay{D: d,
			Tavg: round1(tavg), Tmin: round1(tmin), Tmax: round1(tmax), Precip: round1(rain), Glob: round2(glob),
			Wind: round1(wind), RH: round1(rh), Sun: round1(sun), Verd: round1(verd), ET0: round1(et0)}
		if wd.Tmin > wd.Tmax {
			wd.Tmin, wd.Tmax = wd.Tmax, wd.Tmin
		}
		if r.Bool(p.NoneValues * 0.05) {
			wd.NoneSun = true
		}
		if r.Bool(p.NoneValues * 0.05) {
			wd.NoneVerd = true
		}
		if w.Layout != 2 && r.Bool(p.NoneValues*0.03) {
			wd.NoneTavg = true
		}
		w.Days = append(w.Days, wd)
		dayIdx++
	}
	// a sentinel is only defined where both adjacent days carry a value: never two in a row, never on the first /
	// last day of the series, and (per-year files, or properties other than C04) never on a year's first / last day
	n := len(w.Days)
	// sunshine gaps of two or three days in a row (a quarter of the series with a sunshine column and sentinels at all): the
	// mean of the adjacent days is not defined there; whatever the reader substitutes, it must not be the sentinel itself
	if rg := NewRng(mix(mix(sc.Seed, uint64(sc.Index)), 5151)); w.HasSun && p.NoneValues > 0 && n > 400 && rg.Bool(0.25) {
		for k, gaps := 0, rg.Range(1, 4); k < gaps; k++ {
			at := rg.Range(40, n-40)
			if at0 := sc.Start.Zeit() - w.Days[0].D.Zeit(); at0 > 0 && at0+30 < n-40 && rg.Bool(0.8) {
				at = rg.Range(at0+5, mini(n-40, at0+5+maxi(30, sc.End.Zeit()-sc.Start.Zeit()-10)))
			}
			for j, l := 0, rg.Range(2, 3); j < l; j++ {
				dd := &w.Days[at+j]
				if (dd.D.M == 1 && dd.D.D == 1) || (dd.D.M == 12 && dd.D.D == 31) {
					break
				}
				dd.NoneSun, dd.NoneSunGap = true, true
			}
		}
	}
	for i := range w.Days {
		d := &w.Days[i]
		edge := i == 0 || i == n-1
		yearEdge := (d.D.M == 1 && d.D.D == 1) || (d.D.M == 12 && d.D.D == 31)
		if edge || (yearEdge && (w.Layout == 0 || sc.Prop != "C04")) {
			d.NoneTavg, d.NoneSun, d.NoneVerd = false, false, false
		}
		if i > 0 {
			if w.Days[i-1].NoneTavg {
				d.NoneTavg = false
			}
			if w.Days[i-1].NoneSun && !d.NoneSunGap {
				d.NoneSun = false
			}
			if w.Days[i-1].NoneVerd {
				d.NoneVerd = false
			}
		}
	}
}

// genWeatherFault removes records so that the weather input does not cover the whole simulation window.
func genWeatherFault(sc *Scenario, r *Rng) {
	w := &sc.Weather
	s0, e0 := sc.Start.Zeit(), sc.End.Zeit()
	if e0-s0 < 120 {
		return
	}
	kind := pickS(r, []string{"ends_early", "gap", "missing_year", "starts_late"})
	var from, to int
	switch kind {
	case "ends_early":
		from = r.Range(s0+30, e0-30)
		to = 1 << 30
	case "gap":
		from = r.Range(s0+30, e0-45)
		to = from + r.Range(0, 40)
		if r.Bool(0.25) {
			// year-end gap, inside the simulated period: the end of a year before the end year, or - when the simulation
			// runs into the last days of December - the end of the end year itself (the series goes on in the next year)
			y := DateOfZeit(from).Y
			if (Date{y, 12, 31}).Zeit() > e0 {
				y--
			}
			if sc.End.M == 12 && sc.End.D >= 12 && !w.EndsMidYear && r.Bool(0.5) {
				y = sc.End.Y
			}
			if y >= sc.Start.Y && (Date{y, 12, 31}).Zeit() > s0+25 {
				to = Date{y, 12, 31}.Zeit()
				from = to - r.Range(0, 20)
				if from > e0 {
					from = e0 - r.Range(0, 3)
				}
			}
		}
		// keep the gap inside one calendar year and off its first/last day (a clean "missing days" case)
		fy := DateOfZeit(from).Y
		lo, hi := Date{fy, 1, 2}.Zeit(), Date{fy, 12, 31}.Zeit() // a gap may reach the last day of the year
		if from < lo {
			from = lo
		}
		if to > hi {
			to = hi
		}
		if to < from {
			to = from
		}
	case "missing_year":
		y := r.Range(sc.Start.Y+1, sc.End.Y)
		if (Date{y, 12, 31}).Zeit() > e0 && y > sc.Start.Y+1 {
			y--
		}
		from, to = Date{y, 1, 1}.Zeit(), Date{y, 12, 31}.Zeit()
		if from > e0 {
			return
		}
	case "starts_late":
		from = 0
		to = s0 + r.Range(0, 60)
		if w.Layout == 0 {
			// per-year files: the file of the start year begins later in the year
			from = Date{sc.Start.Y, 1, 1}.Zeit()
		}
	}
	var keep []WeatherDay
	for _, d := range w.Days {
		z := d.D.Zeit()
		if z >= from && z <= to {
			continue
		}
		keep = append(keep, d)
	}
	if len(keep) == len(w.Days) || len(keep) == 0 {
		return
	}
	w.Days = keep
	sc.WeatherFault = kind
	sc.FaultFrom, sc.FaultTo = DateOfZeit(maxi(from, 1)), DateOfZeit(mini(to, e0+400))
	// no sentinels next to the hole (a sentinel needs both neighbours)
	for i := range w.Days {
		if i == 0 || i == len(w.Days)-1 || w.Days[i-1].D.AddDays(1) != w.Days[i].D || w.Days[i].D.AddDays(1) != w.Days[i+1].D {
			w.Days[i].NoneTavg, w.Days[i].NoneSun, w.Days[i].NoneVerd = false, false, false
		}
	}
}

func round1(x float64) float64 {
	v, _ := strconv.ParseFloat(strconv.FormatFloat(x, 'f', 1, 64), 64)
	return v
}
func round2(x float64) float64 {
	v, _ := strconv.ParseFloat(strconv.FormatFloat(x, 'f', 2, 64), 64)
	return v
}

func nextDOY(after Date, doy int) Date {
	// first date strictly after 'after' whose day-of-year index is doy (clipped to the year length)
	y := after.Y
	for {
		dd := doy
		if dd > yearLen(y) {
			dd = yearLen(y)
		}
		c := Date{y, 1, 1}.AddDays(dd - 1)
		if c.Zeit() > after.Zeit() {
			return c
		}
		y++
	}
}

func genRotation(sc *Scenario, r *Rng, p Profile) {
	sc.RotCSV = r.Bool(0.4)
	crops := p.Crops
	pickCrop := func() *CropInfo {
		if len(crops) > 0 {
			return cropInfo(crops[r.Intn(len(crops))])
		}
		if r.Bool(p.Legume) {
			return cropInfo(pickS(r, []string{"SOY", "LUP", "SOY"}))
		}
		return &cropTable[r.Intn(len(cropTable))]
	}
	pre := pickCrop()
	sc.Rotation = append(sc.Rotation, RotEntry{Crop: pre.Code, Sow: sc.Start.AddDays(-120), Harvest: sc.Start,
		Rex: pickI(r, []int{0, 100, 80, 50}), Yld: r.Range(0, 90)})
	cur := sc.Start
	if r.Bool(p.Permanent) {
		// a permanent crop (grass / alfalfa) grown as 1-3 consecutive cuts before the annual crops
		code := pickS(r, []string{"GR", "AA"})
		sow := nextDOY(cur.AddDays(r.Range(4, 30)), r.Range(70, 110))
		for k, cuts := 0, r.Range(1, 3); k < cuts; k++ {
			harv := sow.AddDays(r.Range(50, 95))
			sc.Rotation = append(sc.Rotation, RotEntry{Crop: code, Sow: sow, Harvest: harv, Rex: pickI(r, []int{0, 100})})
			cur = harv
			sow = harv.AddDays(1)
		}
	}
	// a permanent crop may also follow annual crops (draws of their own, so that all other cases stay as they were): after the
	// 1st-3rd annual crop a block of grass / alfalfa cuts is grown; the annual crop before it is mostly a legume and mostly
	// taken off green (harvested 55-100 days after a spring sowing / in spring after an autumn sowing), i.e. while it is
	// still growing, taking up and fixing N
	rp := NewRng(mix(mix(sc.Seed, uint64(sc.Index)), 909))
	midPerm, midAt := rp.Bool(p.Permanent*0.8), rp.Range(1, 3)
	nAnnual := 0
	for len(sc.Rotation) < 12 {
		if midPerm && nAnnual == midAt {
			code := pickS(rp, []string{"GR", "GR", "AA"})
			sow := cur.AddDays(rp.Range(1, 25))
			if rp.Bool(0.5) {
				sow = nextDOY(cur.AddDays(rp.Range(4, 30)), rp.Range(70, 110))
			}
			for k, cuts := 0, rp.Range(1, 3); k < cuts; k++ {
				harv := sow.AddDays(rp.Range(50, 95))
				sc.Rotation = append(sc.Rotation, RotEntry{Crop: code, Sow: sow, Harvest: harv, Rex: pickI(rp, []int{0, 100})})
				cur = harv
				sow = harv.AddDays(1)
			}
			sc.PermanentAfterAnnual = true
			nAnnual++
			continue
		}
		ci := pickCrop()
		if midPerm && nAnnual == midAt-1 && len(crops) == 0 && rp.Bool(0.6) {
			ci = cropInfo(pickS(rp, []string{"SOY", "LUP", "LUP"}))
		}
		sow := nextDOY(cur.AddDays(r.Range(4, 40)), r.Range(ci.SowLo, ci.SowHi))
		var harv Date
		hd := r.Range(ci.HarvLo, ci.HarvHi)
		if ci.Winter {
			harv = nextDOY(Date{sow.Y, 12, 31}, hd)
		} else {
			harv = nextDOY(sow.AddDays(40), hd)
		}
		if midPerm && nAnnual == midAt-1 && rp.Bool(0.7) {
			if ci.Winter {
				harv = nextDOY(Date{sow.Y, 12, 31}, rp.Range(100, 150))
			} else {
				harv = sow.AddDays(rp.Range(55, 100))
			}
		}
		nAnnual++
		e := RotEntry{Crop: ci.Code, Sow: sow, Harvest: harv, Rex: pickI(r, []int{0, 100, 80, 50, 30, 200}), Yld: 0}
		if len(ci.Varieties) > 0 && r.Bool(0.5) {
			e.Variety = pickS(r, ci.Varieties)
		}
		sc.Rotation = append(sc.Rotation, e)
		cur = harv
		if sow.Zeit() > sc.End.Zeit() {
			break
		}
	}
}

// fallow windows (between harvest of entry i and sowing of entry i+1) inside the simulation
func (sc *Scenario) fallowWindows() [][2]int {
	var ws [][2]int
	for i := 0; i+1 < len(sc.Rotation); i++ {
		a := sc.Rotation[i].Harvest.Zeit() + 2
		b := sc.Rotation[i+1].Sow.Zeit() - 2
		if b > sc.End.Zeit() {
			b = sc.End.Zeit()
		}
		if b >= a {
			ws = append(ws, [2]int{a, b})
		}
	}
	return ws
}

func genEvents(sc *Scenario, r *Rng, p Profile) {
	s0, e0 := sc.Start.Zeit(), sc.End.Zeit()
	sc.OtherField = r.Bool(0.4)
	// fertiliser: ascending dates, at most two per day
	nf := r.Range(0, p.FertMax)
	var fz []int
	for i := 0; i < nf; i++ {
		fz = append(fz, r.Range(s0+1, e0+30))
	}
	if sc.Prop == "C10" && nf > 0 && r.Bool(0.15) {
		fz = append(fz, s0) // a fertilisation on the start day (it shares that day with the incorporation of the initial crop's residues)
	}
	if r.Bool(p.SameDayEv) && len(fz) > 0 {
		fz = append(fz, fz[r.Intn(len(fz))]) // one same-day pair
	}
	if r.Bool(p.SameDayEv) && len(fz) > 0 {
		fz = append(fz, fz[r.Intn(len(fz))]+1) // consecutive days
	}
	if r.Bool(p.PreStartEv) {
		fz = append(fz, s0-preStartOffset(r))
	}
	fz = sortDedup(fz, 2) // a same-day pair may be followed by an event on the next day (the shift then cascades)
	for _, z := range fz {
		row := fertTable[r.Intn(len(fertTable))]
		sc.Fert = append(sc.Fert, FertEvent{DateOfZeit(z), r.Range(1, 250), row.Name})
	}
	// 15 % of the C10 schedules: a fertiliser table of the project's own (parameter folder of its own) - the shipped rows
	// plus rows whose names extend the name of a scheduled fertiliser (RG1 -> RG10, RG12; KAS -> KAS2 ...), with other
	// contents, listed behind and in front of it; some of the scheduled applications use the longer names
	if rf := NewRng(mix(mix(sc.Seed, uint64(sc.Index)), 1010)); sc.Prop == "C10" && len(sc.Fert) > 0 && rf.Bool(0.15) {
		for k, n := 0, rf.Range(1, 3); k < n; k++ {
			base := sc.Fert[rf.Intn(len(sc.Fert))].Type
			if len(base) > 3 {
				continue
			}
			for j, m := 0, rf.Range(1, 3); j < m; j++ {
				row := FertRow{Name: base + pickS(rf, []string{"0", "1", "2", "X", "10", "b"}),
					Ntot: float64(rf.Range(30, 900)) / 100, Ndir: float64(rf.Range(5, 95)) / 100, Nfst: float64(rf.Range(5, 60)) / 100,
					Nslo: float64(rf.Range(5, 40)) / 100, NH4: float64(rf.Range(0, 100)) / 100, Loss: float64(rf.Range(0, 30)) / 100}
				if sc.fertRowOf(row.Name) != nil {
					continue
				}
				sc.OwnFertRows = append(sc.OwnFertRows, row)
				sc.OwnFertFront = append(sc.OwnFertFront, rf.Bool(0.4))
			}
		}
		for i := range sc.Fert {
			if len(sc.OwnFertRows) > 0 && rf.Bool(0.3) {
				sc.Fert[i].Type = sc.OwnFertRows[rf.Intn(len(sc.OwnFertRows))].Name
			}
		}
	}
	if rw := NewRng(mix(mix(sc.Seed, uint64(sc.Index)), 1014)); sc.Prop == "C10" && rw.Bool(0.1) {
		sc.SessionWarmup = true
	}
	// a further 8 % of the C10 schedules: a table of the project's own in which a scheduled (shipped) fertiliser has other contents
	if rr := NewRng(mix(mix(sc.Seed, uint64(sc.Index)), 1012)); sc.Prop == "C10" && rr.Bool(0.08) {
		sc.redefineFertRow(rr)
	}
	// tillage: only in fallow windows (a tillage between sowing and harvest is a reported input error)
	ws := sc.fallowWindows()
	nt := r.Range(0, p.TillMax)
	var tz []int
	for i := 0; i < nt && len(ws) > 0; i++ {
		w := ws[r.Intn(len(ws))]
		tz = append(tz, r.Range(w[0], w[1]))
	}
	if r.Bool(p.SameDayEv) && len(tz) > 0 {
		tz = append(tz, tz[r.Intn(len(tz))])
	}
	if r.Bool(p.PreStartEv) {
		tz = append(tz, s0-preStartOffset(r))
	}
	tz = sortDedup(tz, 2)
	// a same-day pair is shifted by one day: keep the shifted day inside the fallow window (windows have margin 2)
	for _, z := range tz {
		maxDepth := 40
		if p.TillDeep {
			maxDepth = 60
		}
		if maxDepth > 10*sc.Soil.N() {
			maxDepth = 10 * sc.Soil.N() // tillage cannot be deeper than the soil profile
		}
		if maxDepth < 5 {
			maxDepth = 5
		}
		depth := r.Range(5, maxDepth)
		if p.TillShallow {
			// a row with working depth 0 is valid input (nothing is mixed, nothing is logged, the schedule goes on);
			// 1-4 cm rounds to zero mixed layers
			switch u := r.F(); {
			case u < 0.08:
				depth = 0
			case u < 0.13:
				depth = r.Range(1, 4)
			}
		}
		sc.Till = append(sc.Till, TillEvent{DateOfZeit(z), depth, r.Range(1, 2)})
	}
	// irrigation: one per day
	sc.IrrFlag = r.Bool(0.6) || p.IrrMax > 6
	if sc.IrrFlag {
		ni := r.Range(0, p.IrrMax)
		var iz []int
		for i := 0; i < ni; i++ {
			iz = append(iz, r.Range(s0, e0+10))
		}
		if r.Bool(p.PreStartEv) {
			iz = append(iz, s0-preStartOffset(r))
		}
		iz = sortDedup(iz, 1)
		for _, z := range iz {
			mm := r.Range(1, 60)
			if sc.Prop == "C10" && NewRng(mix(mix(sc.Seed, uint64(sc.Index)), uint64(z))).Bool(0.07) {
				mm = 0 // an entry of 0 mm: nothing to add, the plan goes on
			}
			if (sc.Prop == "C10" || sc.Prop == "C01") && NewRng(mix(mix(sc.Seed, uint64(sc.Index)), uint64(z)+77)).Bool(0.05) {
				mm = NewRng(mix(mix(sc.Seed, uint64(sc.Index)), uint64(z)+78)).Range(100, 250) // basin / flood irrigation: the day is cut into many sub-steps
			}
			sc.Irr = append(sc.Irr, IrrEvent{DateOfZeit(z), mm, pickI(r, []int{0, 0, 5, 20, 50})})
		}
	}
}

// dropAfterPair removes an event scheduled for the day right after a same-day pair (the second of the pair already
// moves to that day; what should happen to a third action then is not covered by the property)
func dropAfterPair(xs []int) []int {
	var out []int
	for _, x := range xs {
		n := len(out)
		if n >= 2 && out[n-1] == out[n-2] && x == out[n-1]+1 {
			continue
		}
		out = append(out, x)
	}
	return out
}

// preStartOffset: how many days before the start a pre-start event is dated (the day just before the start is the edge)
func preStartOffset(r *Rng) int {
	if r.Bool(0.3) {
		return 1
	}
	return r.Range(1, 300)
}

// sortDedup sorts ascending and keeps at most maxSame equal values
func sortDedup(xs []int, maxSame int) []int {
	for i := 1; i < len(xs); i++ {
		for j := i; j > 0 && xs[j] < xs[j-1]; j-- {
			xs[j], xs[j-1] = xs[j-1], xs[j]
		}
	}
	var out []int
	for _, x := range xs {
		c := 0
		for k := len(out) - 1; k >= 0 && out[k] == x; k-- {
			c++
		}
		if c < maxSame {
			out = append(out, x)
		}
	}
	return out
}

func genOutputConfigs(sc *Scenario, r *Rng, p Profile) {
	n := sc.Soil.N()
	sc.DailyCols = []OutCol{{Format: "%s", Var: "AKTUELL", Width: 10}}
	if p.RandomOutCfg {
		pool := []OutCol{
			{Format: "%d", Var: "TAG.Index", Width: 6}, {Format: "%.1f", Var: "TAG.Num", Width: 6},
			{Format: "%.3f", Var: "TEMPdaily", Width: 9}, {Format: "%.3f", Var: "REGENdaily", Width: 9},
			{Format: "%.4f", Var: "WG", I1: 1, I2: r.Intn(n), Width: 9}, {Format: "%.3f", Var: "C1", I1: r.Intn(n), Width: 10},
			{Format: "%.2f", Var: "TD", I1: r.Intn(n + 1), Width: 8}, {Format: "%d", Var: "J", Width: 5},
			{Format: "%s", Var: "Crop", Width: 5}, {Format: "%.2f", Var: "LAI", Width: 7}, {Format: "%d", Var: "WURZ", Width: 4},
			{Format: "%.1f", Var: "BREG", I1: 0, Width: 7}, {Format: "%v", Var: "NoSuchVariable", Width: 6},
			{Format: "%.3f", Var: "PRO", I1: 1, I2: 2, Width: 7}, {Format: "%s", Var: "SoilID", Width: 5},
			{Format: "%.2f", Var: "OUTSUM", Width: 9, Mod: 0.5}, {Format: "%.3f", Var: "GRW", Width: 8},
			{Format: "%.2f", Var: "ETA", Width: 7}, {Format: "%d", Var: "INTWICK.Index", Width: 3}, {Format: "%s", Var: "C1NotStable", Width: 12},
			{Format: "%s", Var: "C1NotStableErr", Width: 12}, {Format: "%s", Var: "POLYD", Width: 6}, {Format: "%.4f", Var: "W", I1: r.Intn(n), Width: 8},
			{Format: "%.0f", Var: "AKF.Num", Width: 3}, {Format: "%.3f", Var: "TP", I1: r.Intn(n), Width: 8},
		}
		k := r.Range(1, 12)
		var cols []OutCol
		for i := 0; i < k; i++ {
			cols = append(cols, pool[r.Intn(len(pool))])
		}
		// the date column is the first column in half of the cases and anywhere else in the other half; a quarter of the
		// configurations start with a text column that is empty on most days (records then begin with an empty field)
		pos := 0
		if r.Bool(0.5) {
			pos = r.Intn(len(cols) + 1)
		}
		cols = append(cols[:pos], append([]OutCol{{Format: "%s", Var: "AKTUELL", Width: 10}}, cols[pos:]...)...)
		if r.Bool(0.25) {
			lead := []OutCol{{Format: "%s", Var: "C1NotStable", Width: 12}, {Format: "%s", Var: "C1NotStableErr", Width: 12}, {Format: "%s", Var: "POLYD", Width: 6}, {Format: "%s", Var: "Crop", Width: 5}}
			cols = append([]OutCol{lead[r.Intn(len(lead))]}, cols...)
		}
		aligns := []string{"right", "right", "left", "center", "none"}
		for i := range cols {
			if r.Bool(0.4) {
				cols[i].Align = aligns[r.Intn(len(aligns))]
			}
		}
		// a fifth of the configurations: one to three numeric columns are laid out too narrow for their values (width 1-4), so
		// that the value overflows its cell on most days - in every alignment and also in columns that are not the last one
		if rn := NewRng(mix(mix(sc.Seed, uint64(sc.Index)), 5050)); rn.Bool(0.2) {
			for t, m := 0, rn.Range(1, 3); t < m; t++ {
				i := rn.Intn(len(cols))
				if cols[i].Format != "%s" && cols[i].Format != "%v" {
					cols[i].Width = rn.Range(1, 4)
					cols[i].Align = aligns[rn.Intn(len(aligns))]
				}
			}
		}
		// 15 % of the configurations: one or two further columns whose index lies outside the array they name (a second index
		// behind the inner array, a first index behind the outer one, an index on a scalar): the cell has no value, the record
		// keeps its number of fields
		if ro := NewRng(mix(mix(sc.Seed, uint64(sc.Index)), 5151)); ro.Bool(0.15) {
			odd := []OutCol{
				{Format: "%.4f", Var: "WG", I1: 1, I2: ro.Range(21, 40), Width: 9}, {Format: "%.4f", Var: "WG", I1: ro.Range(3, 9), I2: 1, Width: 9},
				{Format: "%.3f", Var: "C1", I1: ro.Range(21, 60), Width: 10}, {Format: "%.2f", Var: "TD", I1: ro.Range(22, 30), Width: 8},
				{Format: "%.3f", Var: "PRO", I1: 1, I2: ro.Range(10, 99), Width: 7}, {Format: "%.1f", Var: "BREG", I1: 5000, Width: 7},
				{Format: "%.2f", Var: "LAI", I1: ro.Range(1, 3), Width: 7}, {Format: "%.4f", Var: "W", I1: 1, I2: 2, Width: 8},
			}
			for t, m := 0, ro.Range(1, 2); t < m; t++ {
				at := ro.Intn(len(cols) + 1)
				cols = append(cols[:at], append([]OutCol{odd[ro.Intn(len(odd))]}, cols[at:]...)...)
			}
		}
		sc.DailyCols = cols
		if r.Bool(0.4) {
			sc.OutStyle.Sep = []string{";", "|", ",", ":"}[r.Intn(4)]
			// a quarter of them: a separator outside ASCII (two or three bytes in the file)
			if rs := NewRng(mix(mix(sc.Seed, uint64(sc.Index)), 2626)); rs.Bool(0.25) {
				sc.OutStyle.Sep = pickS(rs, []string{"¦", "§", "·", "→"})
			}
		}
		if r.Bool(0.3) {
			sc.OutStyle.Na = []string{"''", "-9999", "NA"}[r.Intn(3)]
		}
		if r.Bool(0.3) {
			sc.OutStyle.HeadLines = 1 + r.Intn(3) // 0, 1 or 2 header lines
		}
	} else {
		sc.DailyCols = append(sc.DailyCols,
			OutCol{Format: "%d", Var: "TAG.Index", Width: 5},
			OutCol{Format: "%.6f", Var: "WG", I1: 1, I2: 0, Width: 10},
			OutCol{Format: "%.4f", Var: "C1", I1: 0, Width: 10},
			OutCol{Format: "%.3f", Var: "GRW", Width: 8},
			OutCol{Format: "%.2f", Var: "TD", I1: 1, Width: 8},
			OutCol{Format: "%.3f", Var: "OBMAS", Width: 12},
			OutCol{Format: "%.3f", Var: "PESUM", Width: 10},
			OutCol{Format: "%.4f", Var: "ETA", Width: 8})
	}
	sc.YearlyCols = []OutCol{{Format: "%s", Var: "AKTUELL", Width: 10}, {Format: "%.2f", Var: "PerY", Width: 10}, {Format: "%.2f", Var: "OUTSUM", Width: 10}}
	sc.CropCols = []OutCol{{Format: "%s", Var: "Crop", Width: 4}, {Format: "%s", Var: "SowDate", Width: 10}, {Format: "%d", Var: "SowDOY", Width: 4},
		{Format: "%d", Var: "EmergDOY", Width: 4}, {Format: "%d", Var: "AnthDOY", Width: 4}, {Format: "%d", Var: "MatDOY", Width: 4},
		{Format: "%d", Var: "HarvestDOY", Width: 4}, {Format: "%d", Var: "HarvestYear", Width: 5}, {Format: "%.2f", Var: "Yield", Width: 10},
		{Format: "%.2f", Var: "Biomass", Width: 10}, {Format: "%.3f", Var: "Nuptake", Width: 10}, {Format: "%s", Var: "NotStableErr", Width: 12}}
	if p.RandomOutCfg && r.Bool(0.5) {
		sc.YearlyCols = append(sc.YearlyCols, OutCol{Format: "%.1f", Var: "AUFNASUM", Width: 9}, OutCol{Format: "%v", Var: "Nope", Width: 5})
		sc.CropCols = append(sc.CropCols, OutCol{Format: "%.1f", Var: "LAImax", Width: 7})
	}
	if p.RandomOutCfg && r.Bool(0.4) {
		// yearly and crop files: columns in random order, possibly led by a text column that is empty (no polygon id, stable run)
		r.Shuffle(len(sc.YearlyCols), func(i, j int) { sc.YearlyCols[i], sc.YearlyCols[j] = sc.YearlyCols[j], sc.YearlyCols[i] })
		r.Shuffle(len(sc.CropCols), func(i, j int) { sc.CropCols[i], sc.CropCols[j] = sc.CropCols[j], sc.CropCols[i] })
		if r.Bool(0.5) {
			sc.YearlyCols = append([]OutCol{{Format: "%s", Var: "POLYD", Width: 6}}, sc.YearlyCols...)
		}
		if r.Bool(0.5) {
			sc.CropCols = append([]OutCol{{Format: "%s", Var: "NotStableErr", Width: 12}}, sc.CropCols...)
		}
	}
}

// AutoRow is one line of the automatic-management table (one per crop code).
type AutoRow struct {
	Crop                   string
	Sow1, Sow2, Har2       int // day of year in a normal year (rendered as day+month in the configured date format)
	FixedSowing            bool
	FixedHarvest           bool // har2 = 0000: the rotation file's harvest date is the latest harvest date
	fixedHarvestDrawn      bool
	TS                     float64
	TSIsMax                bool
	SMoMin, SMoMax         float64
	HMoMin, HMoMax         float64
	RainAv, RainAct        float64
	TAccu, TBase           int
	IrrSt1, IrrSt2         int
	Ndem1, Ndem2, Ndem3    int
	St1, St2, St3          string // 3 characters each
	TWindow                int
	OrgF                   string
	OrgAmount              int
	OrgTime                string // H or S + 2 digits
	IrrLow, IrrDep, IrrMax int
}

func doyToDate(year, doy int) Date {
	if doy > yearLen(year) {
		doy = yearLen(year)
	}
	if doy < 1 {
		doy = 1
	}
	return Date{year, 1, 1}.AddDays(doy - 1)
}

// the table carries day+month; the same text is used in every year
func ddmmOf(doy int) (int, int) {
	d := Date{2001, 1, 1}.AddDays(doy - 1)
	return d.D, d.M
}

func dateFromDDMM(year, doyRef int) Date {
	d, m := ddmmOf(doyRef)
	return Date{year, m, d}
}

// genAuto switches automatic management on and regenerates rotation and tillage so that every sowing window
// opens after the latest harvest date of the preceding crop (the quantifier of C16).
func genAuto(sc *Scenario, r *Rng) {
	sc.AutoSow = r.Bool(0.7)
	sc.AutoHarvest = r.Bool(0.6)
	sc.AutoIrr = r.Bool(0.5)
	sc.AutoFert = r.Bool(0.5)
	sc.AutoRows = map[string]*AutoRow{}
	row := func(ci *CropInfo) *AutoRow {
		if a, ok := sc.AutoRows[ci.Code]; ok {
			return a
		}
		a := &AutoRow{Crop: ci.Code}
		a.Sow1 = ci.SowLo - r.Range(0, 8)
		a.Sow2 = mini(ci.SowHi+r.Range(0, 10), 364)
		if r.Bool(0.15) {
			a.Sow2 = a.Sow1 + r.Range(0, 3) // very short window: forced sowing
		}
		a.Har2 = mini(ci.HarvHi+r.Range(0, 15), 364)
		a.FixedSowing = r.Bool(0.1)
		a.TS = float64(r.Range(20, 120)) / 10
		a.TSIsMax = ci.Winter
		if ci.Winter {
			a.TS = float64(r.Range(120, 250)) / 10
		}
		a.SMoMin, a.SMoMax = 0, float64(r.Range(60, 999))/10
		a.HMoMin, a.HMoMax = 0, float64(r.Range(60, 999))/10
		a.RainAv = float64(r.Range(5, 80)) / 10
		a.RainAct = float64(r.Range(1, 10)) / 10
		a.TAccu = pickI(r, []int{0, 0, 80, 200, 340})
		if ci.Winter {
			a.TAccu = 0
		}
		a.TBase = pickI(r, []int{0, 0, 5})
		a.IrrSt1 = r.Range(1, 4)
		a.IrrSt2 = r.Range(a.IrrSt1, 6)
		a.Ndem1, a.Ndem2, a.Ndem3 = r.Range(0, 180), r.Range(0, 150), r.Range(0, 90)
		st := func() string {
			switch r.Intn(3) {
			case 0:
				return "S" + strconv.Itoa(r.Range(0, 5)) + " "
			case 1:
				return fmt.Sprintf("%-3d", r.Range(40, 200))
			default:
				return "0  "
			}
		}
		a.St1, a.St2, a.St3 = st(), st(), st()
		a.TWindow = r.Range(1, 14)
		a.OrgF, a.OrgAmount, a.OrgTime = "---", 0, "00 "
		if r.Bool(0.4) {
			a.OrgF, a.OrgAmount = pickS(r, []string{"RM ", "SM ", "FM "}), r.Range(20, 300)
			a.OrgTime = pickS(r, []string{"H", "S"}) + fmt.Sprintf("%-2d", r.Range(1, 9))
		}
		a.IrrLow, a.IrrDep, a.IrrMax = r.Range(20, 80), r.Range(20, 120), r.Range(5, 60)
		sc.AutoRows[ci.Code] = a
		return a
	}
	// rotation
	pre := sc.Rotation[0]
	sc.Rotation = []RotEntry{pre}
	prevLatest := sc.Start
	for len(sc.Rotation) < 12 {
		ci := &cropTable[r.Intn(len(cropTable))]
		if sc.Prop == "C16" {
			// permanent crops take part in rotations too: 8 % of the entries, and a permanent crop is followed by itself (the
			// next cut) in 60 % of the cases
			if n := len(sc.Rotation); n > 1 && isPerennial(sc.Rotation[n-1].Crop) && r.Bool(0.6) {
				ci = perennialInfo(sc.Rotation[n-1].Crop)
			} else if r.Bool(0.08) {
				ci = &perennialTable[r.Intn(len(perennialTable))]
			}
		}
		_, known := sc.AutoRows[ci.Code]
		a := row(ci)
		if !known && len(sc.Rotation) > 1 && r.Bool(0.3) {
			// a (short) window that opens right after the latest harvest of the preceding crop: the forced sowing at the window
			// end then falls within a few days of that harvest
			a.Sow1 = mini(prevLatest.AddDays(1+r.Range(0, 2)).DOY(), 360)
			a.Sow2 = mini(a.Sow1+r.Range(0, 4), 364)
		}
		// smallest sowing year whose window opens after the latest harvest of the preceding crop
		y := prevLatest.Y
		gap := pickI(r, []int{0, 0, 1, 3, 6}) // the window may open on the very day after the latest harvest
		for dateFromDDMM(y, a.Sow1).Zeit() <= prevLatest.Zeit()+gap {
			y++
		}
		open, closeD := dateFromDDMM(y, a.Sow1), dateFromDDMM(y, a.Sow2)
		hy := y
		if ci.Winter {
			hy = y + 1
		}
		// the latest harvest date of the table (day and month) in the harvest year of the rotation entry: late enough to grow
		for dateFromDDMM(hy, a.Har2).Zeit() < closeD.Zeit()+45 {
			hy++
		}
		latest := dateFromDDMM(hy, a.Har2)
		sow := open.AddDays(r.Range(0, maxi(0, closeD.Zeit()-open.Zeit())))
		// the rotation file's harvest date: between window close + 40 days and the latest harvest date
		hlo := dateFromDDMM(hy, ci.HarvLo)
		if hlo.Zeit() < closeD.Zeit()+40 {
			hlo = closeD.AddDays(40)
		}
		if hlo.Zeit() > latest.Zeit() {
			hlo = latest
		}
		harv := hlo.AddDays(r.Range(0, latest.Zeit()-hlo.Zeit()))
		e := RotEntry{Crop: ci.Code, Sow: sow, Harvest: harv, Rex: pickI(r, []int{0, 100, 80, 50}), WinOpen: open, WinClose: closeD, LatestHarv: latest}
		if isPerennial(ci.Code) {
			e.Rex = pickI(r, []int{0, 100}) // a cut of a permanent crop: the stand stays (the model knows 0 and 100 only)
		}
		if a.OrgAmount > 0 && r.Bool(0.5) {
			e.AutOrg = 1
		}
		if len(ci.Varieties) > 0 && r.Bool(0.3) {
			e.Variety = pickS(r, ci.Varieties)
		}
		sc.Rotation = append(sc.Rotation, e)
		prevLatest = latest
		if harv.Zeit() > prevLatest.Zeit() {
			prevLatest = harv
		}
		if open.Zeit() > sc.End.Zeit() {
			break
		}
	}
	// tillage only where no crop can stand: between the latest harvest and the next window opening
	sc.Till = nil
	nt := r.Range(0, 4)
	for i := 0; i < nt; i++ {
		k := r.Range(0, len(sc.Rotation)-2)
		a := sc.Rotation[k].LatestHarv.Zeit()
		if k == 0 {
			a = sc.Start.Zeit()
		}
		if h := sc.Rotation[k].Harvest.Zeit(); h > a {
			a = h
		}
		b := sc.Rotation[k+1].WinOpen.Zeit()
		if b-a < 8 {
			continue
		}
		z := r.Range(a+3, b-4)
		if z > sc.End.Zeit() {
			continue
		}
		sc.Till = append(sc.Till, TillEvent{DateOfZeit(z), r.Range(5, mini(40, maxi(5, 10*sc.Soil.N()))), r.Range(1, 2)})
	}
	for i := 1; i < len(sc.Till); i++ {
		for j := i; j > 0 && sc.Till[j].D.Zeit() < sc.Till[j-1].D.Zeit(); j-- {
			sc.Till[j], sc.Till[j-1] = sc.Till[j-1], sc.Till[j]
		}
	}
	var tl []TillEvent
	for i, t := range sc.Till {
		if i > 0 && t.D.Zeit() <= sc.Till[i-1].D.Zeit()+2 {
			continue
		}
		tl = append(tl, t)
	}
	sc.Till = tl
	// an eighth of the table rows carry no latest harvest date (0000): the harvest date of the rotation file is then the latest
	// date (the harvest on demand has no moisture band in that case), so the configured latest date is the rotation's own
	rfh := NewRng(mix(mix(sc.Seed, uint64(sc.Index)), 4401))
	for _, e := range sc.Rotation[1:] {
		if a := sc.AutoRows[e.Crop]; a != nil && !a.fixedHarvestDrawn {
			a.fixedHarvestDrawn = true
			a.FixedHarvest = rfh.Bool(0.125)
		}
	}
	for i := 1; i < len(sc.Rotation); i++ {
		if a := sc.AutoRows[sc.Rotation[i].Crop]; a != nil && a.FixedHarvest {
			sc.Rotation[i].LatestHarv = sc.Rotation[i].Harvest
		}
	}
	sc.rebuildAutoman()
}

// rebuildAutoman renders the automatic-management table from the rows
func (sc *Scenario) rebuildAutoman() {
	sc.Automan = nil
	for _, ct := range cropTable {
		if a, ok := sc.AutoRows[ct.Code]; ok {
			sc.Automan = append(sc.Automan, a.line(sc.DateFormat))
		}
	}
	for _, ct := range perennialTable {
		if a, ok := sc.AutoRows[ct.Code]; ok {
			sc.Automan = append(sc.Automan, a.line(sc.DateFormat))
		}
	}
}

func isPerennial(code string) bool { return perennialInfo(code) != nil }

func perennialInfo(code string) *CropInfo {
	for i := range perennialTable {
		if perennialTable[i].Code == code {
			return &perennialTable[i]
		}
	}
	return nil
}

func (a *AutoRow) line(dateFormat int) string {
	buf := []byte(strings.Repeat(" ", 184))
	dm := func(doy int) string {
		d, m := ddmmOf(doy)
		return FmtDayMonth(d, m, dateFormat)
	}
	put(buf, 0, fmt.Sprintf("%-3s", a.Crop))
	if a.FixedSowing {
		put(buf, 4, "0000")
	} else {
		put(buf, 4, dm(a.Sow1))
	}
	put(buf, 9, dm(a.Sow2))
	if a.FixedHarvest {
		put(buf, 14, "0000")
	} else {
		put(buf, 14, dm(a.Har2))
	}
	put(buf, 19, fmt.Sprintf("%4.1f", a.TS))
	if a.TSIsMax {
		put(buf, 24, "x")
	}
	put(buf, 25, fmt.Sprintf("%5.1f", a.SMoMin))
	put(buf, 32, fmt.Sprintf("%5.1f", a.SMoMax))
	put(buf, 39, fmt.Sprintf("%5.1f", a.HMoMin))
	put(buf, 46, fmt.Sprintf("%5.1f", a.HMoMax))
	put(buf, 53, fmt.Sprintf("%4.1f", a.RainAv))
	put(buf, 60, fmt.Sprintf("%4.1f", a.RainAct))
	put(buf, 68, fmt.Sprintf("%-3d", a.TAccu))
	put(buf, 74, fmt.Sprintf("%-2d", a.TBase))
	put(buf, 80, strconv.Itoa(a.IrrSt1))
	put(buf, 87, strconv.Itoa(a.IrrSt2))
	put(buf, 94, fmt.Sprintf("%-3d", a.Ndem1))
	put(buf, 100, fmt.Sprintf("%-3d", a.Ndem2))
	put(buf, 106, fmt.Sprintf("%-3d", a.Ndem3))
	put(buf, 112, a.St1)
	put(buf, 119, a.St2)
	put(buf, 127, a.St3)
	put(buf, 135, fmt.Sprintf("%-2d", a.TWindow))
	put(buf, 143, fmt.Sprintf("%-3s", a.OrgF))
	put(buf, 149, fmt.Sprintf("%-3d", a.OrgAmount))
	put(buf, 156, fmt.Sprintf("%-3s", a.OrgTime))
	put(buf, 163, fmt.Sprintf("%-3d", a.IrrLow))
	put(buf, 170, fmt.Sprintf("%-3d", a.IrrDep))
	put(buf, 177, fmt.Sprintf("%-3d", a.IrrMax))
	return string(buf)
}
