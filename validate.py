#!/usr/bin/env python3
"""Validates MANIFEST.json and evidence/*.json against the task schemas (uses the tooling venv's jsonschema)."""
import json, glob, sys
import jsonschema
m = json.load(open('MANIFEST.json')); jsonschema.validate(m, json.load(open('/root/.vp/MANIFEST.schema.json')))
es = json.load(open('/root/.vp/EVIDENCE.schema.json'))
bad = 0
for c in m['checks']:
    f = c['evidence_file']
    try:
        jsonschema.validate(json.load(open(f)), es)
    except Exception as e:
        print('INVALID', f, str(e)[:200]); bad += 1
props = [json.loads(l)['id'] for l in open('properties.jsonl')]
claimed = {c['property_id'] for c in m['checks']} | {n['property_id'] for n in m.get('not_applicable', [])}
missing = [p for p in props if p not in claimed]
print('manifest valid; checks', len(m['checks']), 'not claimed', len(m.get('not_applicable', [])), 'missing', missing, 'bad evidence', bad)
sys.exit(1 if bad or missing else 0)
