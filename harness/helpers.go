package main

import (
	"fmt"
	"os"
	"path/filepath"
	"reflect"
	"strings"
	"unsafe"

	"github.com/zalf-rpm/Hermes2Go/hermes"
)

// finiteScanner walks every float64 of the run state structs (offset table built once by reflection).
type finiteScanner struct {
	spans []fspan
}
type fspan struct {
	name string
	ptr  unsafe.Pointer
	n    int
}

func newFiniteScanner(ev *hermes.VerifEvent) *finiteScanner {
	fs := &finiteScanner{}
	fs.add("g", reflect.ValueOf(ev.G).Elem())
	fs.add("water", reflect.ValueOf(ev.W).Elem())
	fs.add("nitro", reflect.ValueOf(ev.N).Elem())
	if ev.C != nil {
		fs.add("crop", reflect.ValueOf(ev.C).Elem())
	}
	return fs
}

func (fs *finiteScanner) add(prefix string, v reflect.Value) {
	t := v.Type()
	for i := 0; i < v.NumField(); i++ {
		f := v.Field(i)
		name := prefix + "." + t.Field(i).Name
		if !f.CanAddr() {
			continue
		}
		switch f.Kind() {
		case reflect.Float64:
			fs.spans = append(fs.spans, fspan{name, unsafe.Pointer(f.UnsafeAddr()), 1})
		case reflect.Array:
			et := f.Type().Elem()
			if et.Kind() == reflect.Float64 {
				fs.spans = append(fs.spans, fspan{name, unsafe.Pointer(f.UnsafeAddr()), f.Len()})
			} else if et.Kind() == reflect.Array && et.Elem().Kind() == reflect.Float64 {
				fs.spans = append(fs.spans, fspan{name, unsafe.Pointer(f.UnsafeAddr()), f.Len() * et.Len()})
			}
		case reflect.Struct:
			if f.Type().Name() == "DualType" {
				fs.add(name, f)
			}
		}
	}
}

func (fs *finiteScanner) scan() (string, float64, bool) {
	for _, s := range fs.spans {
		xs := unsafe.Slice((*float64)(s.ptr), s.n)
		for i, x := range xs {
			if x != x || x > 1.7e308 || x < -1.7e308 {
				return fmt.Sprintf("%s[%d]", s.name, i), x, false
			}
		}
	}
	return "", 0, true
}

// scanResultFilesForNaN looks for NaN / Inf text in every result file of the run.
func scanResultFilesForNaN(rc *RunCtx, prop string) {
	entries, err := os.ReadDir(rc.ResultDir)
	if err != nil {
		return
	}
	for _, e := range entries {
		if e.IsDir() {
			continue
		}
		b, err := os.ReadFile(filepath.Join(rc.ResultDir, e.Name()))
		if err != nil {
			continue
		}
		s := string(b)
		for _, bad := range []string{"NaN", "+Inf", "-Inf", "Inf"} {
			if k := strings.Index(s, bad); k >= 0 {
				line := 1 + strings.Count(s[:k], "\n")
				sig := "nan_in_output"
				if rc.Res.NViol[prop+"|nan_chain_fc_gt_ps"] > 0 {
					sig = "nan_chain_fc_gt_ps"
				}
				rc.Violate(prop, sig, fmt.Sprintf("result file %s line %d contains %q", e.Name(), line, bad), 0, 0, nil)
				break
			}
		}
		rc.Cov("result_files_scanned", 1)
	}
}

// resultFile returns the path of the result file with the given prefix letter (V, Y, C, M), "" if absent.
func resultFile(rc *RunCtx, prefix string) string {
	entries, err := os.ReadDir(rc.ResultDir)
	if err != nil {
		return ""
	}
	for _, e := range entries {
		if strings.HasPrefix(e.Name(), prefix+rc.Sc.Polygon+rc.Sc.PlotNr+".") {
			return filepath.Join(rc.ResultDir, e.Name())
		}
	}
	return ""
}

func scenarioSample(sc *Scenario) map[string]interface{} {
	hs := []string{}
	for _, h := range sc.Soil.Horizons {
		hs = append(hs, fmt.Sprintf("%s@%ddm LD%d Corg%.2f stone%d%% FC/WP/PS=%d/%d/%d", strings.TrimSpace(h.Texture), h.LowerDM, h.LD, h.Corg, h.Stone, h.FC, h.WP, h.PS))
	}
	rot := []string{}
	for _, e := range sc.Rotation {
		rot = append(rot, fmt.Sprintf("%s%s %s..%s", e.Crop, optVar(e.Variety), e.Sow, e.Harvest))
		if len(rot) >= 5 {
			break
		}
	}
	return map[string]interface{}{
		"case": fmt.Sprintf("%s seed=%d index=%d", sc.Prop, sc.Seed, sc.Index), "start": sc.Start.String(), "end": sc.End.String(),
		"date_format": dateFormatNames[sc.DateFormat], "soil": hs, "layers": sc.Soil.N(), "ptf": sc.PTF,
		"drain":       fmt.Sprintf("depth %d dm fraction %g", sc.Soil.DrainDep, sc.Soil.DrainFrac),
		"groundwater": fmt.Sprintf("mode %d level %d hi/lo %d/%d series %d", sc.GWMode, sc.Soil.GW, sc.GRHI, sc.GRLO, len(sc.GWSeries)),
		"weather":     fmt.Sprintf("layout %d, %d days from %s, none=%g", sc.Weather.Layout, len(sc.Weather.Days), firstDay(sc), sc.Weather.NoneValue),
		"et_method":   sc.ETpot, "latitude": sc.Latitude, "rotation": rot,
		"events": fmt.Sprintf("fert %d till %d irr %d", len(sc.Fert), len(sc.Till), len(sc.Irr)), "injections": len(sc.Inject),
		"auto": fmt.Sprintf("sow=%v fert=%v irr=%v harvest=%v", sc.AutoSow, sc.AutoFert, sc.AutoIrr, sc.AutoHarvest),
	}
}

func optVar(v string) string {
	if v == "" {
		return ""
	}
	return "/" + v
}

func firstDay(sc *Scenario) string {
	if len(sc.Weather.Days) == 0 {
		return "-"
	}
	return sc.Weather.Days[0].D.String()
}
