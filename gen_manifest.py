#!/usr/bin/env python3
"""Regenerates MANIFEST.json from the table below (kept in one place so it stays valid)."""
import json, subprocess, sys

HOOK_COMMITS = ["096ae72", "f3cf827"]

checks = {
 "C01": ("simmon", "exploration", "3 C01", "runtime monitoring: water-balance oracle on every sub-step and day of generated runs (in-process probes)",
   "Holds on every sub-step and day of the generated runs (residual <= 1e-9 cm); sampled inputs, not all inputs. Closure is checked at sub-step level, day level (with the daily flux, so lost sub-steps show), between days, and against the reported counters; a daily groundwater update may rewrite the water below the table only when the groundwater input gives another level than the day before (plateaus of a series, constant levels: nothing may touch the water); groundwater table at the surface (0 dm) included; the reported percolation-minus-supply counter is compared with the real boundary flux (open finding F36: root uptake from the groundwater layer booked as groundwater supply)."),
 "C02": ("simmon", "exploration", "3 C02", "runtime monitoring: N-balance oracle with clamp accounting on every N sub-step and day of generated runs",
   "Holds on every N sub-step and day of the generated runs (residual minus clamp-created N <= tolerance), incl. deposition/irrigation input and the instability flag; the real transport routine is additionally run on copies of the live state with tillage-like mixed top-soil N and demand above the layers' content (uptake limit engaged); 12 % of the cases with automatic management, half of the automatic-harvest cases rewritten after a probe run so that a tillage postponed by the standing crop meets the next scheduled one; permanent crops after annual crops, the crop before them mostly a legume taken off green; first crops with the N-content functions 7-9 (project-supplied parameter file); sampled inputs."),
 "C06": ("simmon", "exploration", "3 C06", "runtime monitoring: bound and finiteness assertions on the live state every day + NaN scan of result files",
   "Every layer every day within [WP/3, FC + capillary increment], below 1 and not above the pore volume the layer had after input; every float of the run state finite; the real water routine is additionally run for whole days on copies of the live state with sub-step counts hostile to floating point (49, 93, 98 ...) and layers filled to pore volume; injected air-dry and nearly full states; upper bound also against the field capacity of a reference run with forced daily re-evaluation of the parameters; sampled inputs."),
 "C07": ("simmon", "exploration", "3 C07", "runtime monitoring: pool/counter bookkeeping around every N-routine call (incl. the day a permanent stand dies back and sprouts again: the pools gain no more than the crop gives up), all cumulative N counters incl. N2O from denitrification, once-per-day crediting per sub-step, kernel calls of the real mineralisation routine",
   "Non-negativity, pool+counter conservation around mineralisation/tillage, fertiliser organic inputs equal the applied amounts, uptake/fixation credited only on sub-step 1 and never beyond the day's gain of the fixation counter (also for a grass ley that follows a legume taken off green); sampled inputs."),
 "C08": ("simmon", "exploration", "3 C08", "runtime monitoring: ET ordering / cap / root-zone assertions at the ET probe every day",
   "0 <= ETa+T <= ETp <= cap, uptake only within min(root depth, groundwater) and <= available water, stress ratios in [0,1], on every day of the generated runs over the five ET methods; polar latitudes, series without measured radiation, groundwater table at the surface (0 dm)."),
 "C09": ("simmon", "exploration", "3 C09", "runtime monitoring: crop state assertions every crop day, stage-order checker at every harvest, cross-check with the crop result file",
   "All shipped annual main-crop parameter sets (classic + YAML) exercised; state valid and stage index monotone on every crop day observed; 30 % of the cases driven by sunshine duration instead of radiation, with sunshine gaps of several days."),
 "C15": ("simmon", "exploration", "3 C15", "runtime monitoring: parameter-ordering assertions after input and twice a day, history monitor keyed by groundwater level",
   "Ordering 0<WP<FC<=PS<1 and WP<WRED<FC hold for every layer/day of the generated runs over table / explicit / PTF routes; same level => same parameters (one open finding for the input set-up); every day additionally compared with a reference run of the same scenario in which the daily groundwater update is forced to re-evaluate the parameters from scratch (no level has to recur); mixed-source and two-group profiles."),
 "C19": ("simmon", "exploration", "3 C19", "runtime monitoring: envelope assertion on every layer temperature every day + diffusion-number invariant",
   "Temperatures stay inside the running envelope of imposed boundary values; diffusion number <= 1/2 on every layer-day observed; density classes and measured densities from peat (0.15 g/cm3) to dense till (2.44 g/cm3 with the pore volume that goes with it)."),
 "C12": ("fnmon", "exploration", "3 C12", "runtime monitoring: exhaustive execution of the real date conversion functions against a calendar oracle (Go time package)",
   "Exhaustive over the stated date range: all 72,684 dates x 4 formats x 4 separator variants x admissible century splits (each text also with blanks / tabs around it and with a blank-padded middle field; half of the format x split pairs and all extreme splits through the converter the real configuration reader builds), text->number->text identity, consecutive numbering, day-of-year, leap years, inverse function; the long-lived converters of both directions are also asked backwards, in zig-zag around every month change and in random jumps, and every pair of dates up to 45 days apart that straddles a month or year change is asked back to back in both orders (the answer may not depend on the call history)."),
 "C17": ("fnmon", "exploration", "3 C17", "runtime monitoring: the real calcHermesBatch and hermes2go binaries executed for every (lines, nodes, encoding) triple up to the bound; executed log ids recorded and checked for exactly-once",
   "Exhaustive to the bound (quick L<=24,K<=26; thorough L<=60,K<=64; nine file shapes: LF / CRLF, blank lines, no final newline, one line of 5 kB / 40 kB, line ends on 32 KiB ... 256 KiB block boundaries; plus four files of 4 MiB (thorough 16 MiB) with line ends on / just before every power-of-two boundary from 4 KiB up, their 3x multiples and every whole MiB, partitioned for ten node counts, the ranges around the boundary lines executed): ranges contiguous/disjoint/covering, count equals -size, every range executed by hermes2go -lines, each line id executed exactly once."),
 "C20": ("simmon", "exploration", "3 C20", "runtime monitoring: groundwater level read at the probe on every simulated day compared with an independent interpolation / sinusoid; dense calls of the public interpolation function",
   "Level of every simulated day equals series value / linear interpolation / nearest end value, or the configured sinusoid within [min,max]; the level lies between its two neighbouring series values exactly (no tolerance: a plateau is returned as it is); series selected by gwId= among decoy rows, rows of other soils whose id extends / is extended by the simulated id; levels of 0 dm; series entries aligned with the edges of the simulated period; function-level: nodes, neighbours of nodes, outside span, random interior days of generated series, queried in random order."),
 "C05": ("simmon", "exploration", "3 C05", "runtime monitoring: the result files written by real generated runs are parsed and compared record by record with an independent calendar / rotation oracle",
   "Daily file: exactly the expected days (start..end, interval k, leap days) in order; yearly file: one record per annual output date inside the period; crop file: one record per harvested rotation entry in order; every record has the configured number of fields (fixed width: the line must be cut into exactly one cell per column, each at least as wide as configured and followed by a fill character); both styles; random output configurations (columns whose index lies outside the array or slice they name, date column anywhere, leading empty text fields, separators, alignments, NA values, 0-2 header lines, calendar-edge annual dates). One open finding (end-date extension)."),
 "C14": ("simmon", "exploration", "3 C14", "runtime monitoring: probe-and-abort read-back of the effective configuration from the real reader for generated file/line/default combinations, plus full runs with decoy file values",
   "Every scalar key (numeric, text, on/off, enum) in random subsets of file and line, numbers on the line also zero-padded / signed / in exponent form / with bare decimal point, unknown keys, missing file, two argument orders per case: effective value = line, else file, else default; full runs confirm the line value in run state and result files; the input-format keys go on the line over opposite values in the file, half of the full runs with fileExtension=, and every full run is compared byte for byte with a reference run that has the values in the file, nothing on the line and standard file names."),
 "C04": ("simmon", "exploration", "3 C04", "runtime monitoring: on every simulated day the weather arrays the model uses are compared at the probe with the generator's truth table for that calendar date; fault cases (incomplete weather) must end with an error",
   "Three layouts, leap years, year changes, series starting early, sentinels incl. year boundaries, sunshine gaps of two or three days (the marker itself must never be consumed), station-line altitude / CO2, wind floor as consumed by Penman-Monteith, monthly precipitation correction by the calendar month of the date (leap years), header-driven CSV files with permuted / unknown / alias-named columns; incomplete inputs (ends early, gap, missing year, starts late): ten open findings where the readers' errors are dropped, one open finding for a sentinel at the edge of the loaded year range."),
 "C10": ("simmon", "exploration", "3 C10", "runtime monitoring: exactly-once / ordering checker over the management event log of real runs against a reference reader of the generated schedule, plus state-jump assertions with amounts from the fertiliser table",
   "Fertilisation, tillage, irrigation, sowing, harvest: each scheduled action inside the period appears exactly once, in order, on its due day; pre-start actions ignored; irrigation water and N enter that day's infiltration / top layer, the water sub-steps of an irrigation day hand over the whole surface flux (basin irrigations of 100-250 mm included); fertiliser pools change by the table amounts (organic part taken before the volatilisation loss); 20% of cases with automatic management switches; fertiliser tables of the project's own (longer names, redefined shipped rows); 10 % of the cases run in a session that has already run a sister project with another fertiliser table."),
 "C16": ("simmon", "exploration", "3 C16", "runtime monitoring: sowing / harvest days from the management event log and every automatic irrigation / N application observed at the probes are checked against the generated rotation and automatic-management table",
   "Rotation order, crop code and harvest year of every crop record; fixed dates hit exactly; automatic sowing inside its window and after the previous harvest, harvest not after the latest date, irrigation only in the stage window and not above the daily maximum, automatic N >= 0; all 16 switch combinations; permanent crops followed by themselves; every fourth case rewritten around the harvest day observed in a probe run (fixed sowing right after a triggered harvest); table rows without sowing window (0000) or without latest harvest date (0000)."),
 "C13": ("pairmon", "exploration", "3 C13", "runtime monitoring: differential paired runs of the real model on one generated project written in two encodings; result files compared byte for byte",
   "Eight pair kinds (crop classic/YAML/converter-binary YAML, soil, rotation, measurement txt/CSV, weather layouts 0/1/2 with a station line whose altitude differs from the configured one (also below sea level) and may carry CO2, date formats); every shipped annual main crop file covered; 12 significant digits of daily state compared."),
 "C18": ("pairmon", "exploration", "3 C18", "runtime monitoring: differential paired runs of the real model, override on the batch line vs the same edit in a copied parameter folder; result files compared byte for byte",
   "Every overridable base / per-stage / per-organ parameter x every shipped annual main crop file; 35 % of the pairs are 5-6 year runs in which other crops (preferably with more development stages) are grown before the crop of the overridden file; valid values: override == file edit; out-of-range value or index: run == run without overrides; an override naming a crop file that no crop of the run reads (classic and YAML names): run == run without overrides."),
 "C03": ("batchmon", "exploration", "3 C03", "runtime monitoring: Go race detector + event-trace checker + result-hash comparison over the real hermes2go binary under randomised schedules (concurrency, line order, GOMAXPROCS, injected delays); porcupine linearizability check of recorded file-pool histories",
   "Every line's result files equal its solo reference under every explored schedule (batches contain repeated lines, exact duplicates, lines that log while valid, custom crop codes, a numerically unstable project, a project whose soil uses a texture class that only its own parameter folder defines, a project whose own fertiliser table redefines a shipped fertiliser, a project whose csv soil file keeps the classic columns under their old names, a project whose weather file begins after the simulation start together with variant lines that run it with the complete series, and configuration variants of one project), repeated solo runs reproduce, exactly one run_start/run_end per line in the trace, no race report, file-pool histories (files from a few bytes to 4 MiB, first-load storms) linearizable against a load-once model; the interleavings seen (max simultaneous runs, distinct completion orders) are reported."),
 "C11": ("batchmon", "fault_enumeration", "3 C11", "runtime monitoring: fault enumeration (reported-error class x position x concurrency) over the real hermes2go binary with race detector, trace checker and result-hash comparison; bounded-progress monitor on logical steps for termination",
   "Seven reported-error classes, each in several shapes (other horizon, window boundaries incl. the harvest day, single-day / late gaps, ids extending or shortening an existing id), each fail only their own line with the expected message, all other lines equal their solo results, the summary lists exactly the failed ids; runs incl. fertiliser prediction at latitudes -70..80 stay within the logical step bounds; a crash on a valid generated input is reported."),
}

not_applicable = {
}

pending = {  # not yet built: listed as not claimed until their check exists
}

def main():
    m = {
     "version": 1,
     "setup_cmd": "./setup.sh",
     "hooks": {"guard": "verif", "enable": "go build -tags verif (checks run ./build.sh which rebuilds harness and binaries from /repo's working tree)",
               "baseline_off_cmd": "./baseline_off.sh", "source_commits": HOOK_COMMITS, "add_only": True},
     "engines": [
       {"name": "simmon", "path": "harness/", "serves_properties": sorted(k for k,v in checks.items() if "simmon" in v[0]),
        "kind_free_text": "in-process monitors on probes of the real day loop, child worker processes, seeded scenario generator"},
       {"name": "fnmon", "path": "harness/", "serves_properties": sorted(k for k,v in checks.items() if "fnmon" in v[0] or k in ("C20",)),
        "kind_free_text": "dense / exhaustive execution of real public functions and real binaries against independent reference oracles, sharded over child processes"},
       {"name": "batchmon", "path": "harness/", "serves_properties": sorted(k for k,v in checks.items() if "batchmon" in v[0]),
        "kind_free_text": "black-box batch/concurrency monitor over the real hermes2go binary built with -race and the verif hooks: event trace, seeded delays, race logs, result hashes vs solo references; porcupine on file-pool histories"},
       {"name": "pairmon", "path": "harness/", "serves_properties": sorted(k for k,v in checks.items() if "pairmon" in v[0]),
        "kind_free_text": "differential paired runs of the real model (two encodings of one content / override vs file edit), byte comparison of result files"},
     ],
     "checks": [],
     "notes": "Runtime monitoring only. Exit 0 held / 1 violation / 2 inconclusive. known_findings.json lists repaired (fixed) and open findings.",
     "not_applicable": [],
    }
    for pid in sorted(checks):
        eng, level, ref, tech, text = checks[pid]
        m["checks"].append({
          "property_id": pid,
          "quick_cmd": "./check.sh %s quick" % pid,
          "thorough_cmd": "./check.sh %s thorough" % pid,
          "evidence_file": "evidence/%s.json" % pid,
          "replay_cmd_template": "./check.sh %s --replay {path}" % pid,
          "engine": eng,
          "level_claimed": {"category": level, "text": text, "design_ref": "DESIGN.md section " + ref},
          "level_note": "Trusted base: the harness oracles and generator, the Go toolchain; the verdict covers the executions observed (counts in the evidence file), not all inputs.",
          "technique": tech,
        })
    for pid, reason in sorted({**not_applicable, **pending}.items()):
        if pid not in checks:
            m["not_applicable"].append({"property_id": pid, "reason": reason})
    json.dump(m, open("MANIFEST.json", "w"), indent=1)
    print("MANIFEST.json written:", len(m["checks"]), "checks,", len(m["not_applicable"]), "not claimed")

if __name__ == "__main__":
    main()
