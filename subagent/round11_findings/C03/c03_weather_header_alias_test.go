package hermes

// Demonstration for property C03 ("results are deterministic and independent of scheduling").
//
// A weather CSV may carry more columns than Hermes2Go needs (the shipped examples carry
// vaporpress, dewpoint_temp, ...). If such an extra column happens to be named with one of the
// alternative spellings the reader accepts for a quantity (here: the station's net radiation
// column "RAD" next to the regular "globrad"), readHeader() picks the column to use through the
// iteration order of a Go map - which is random per call. The same batch line on the same project
// then produces different result files from run to run, inside one session, sequentially as well
// as concurrently.

import (
	"bytes"
	"fmt"
	"io"
	"os"
	"path/filepath"
	"sort"
	"strconv"
	"strings"
	"testing"
)

func c03CopyTree(t *testing.T, src, dst string) {
	t.Helper()
	err := filepath.Walk(src, func(p string, info os.FileInfo, err error) error {
		if err != nil {
			return err
		}
		rel, _ := filepath.Rel(src, p)
		target := filepath.Join(dst, rel)
		if info.IsDir() {
			return os.MkdirAll(target, 0o755)
		}
		in, err := os.Open(p)
		if err != nil {
			return err
		}
		defer in.Close()
		out, err := os.Create(target)
		if err != nil {
			return err
		}
		defer out.Close()
		_, err = io.Copy(out, in)
		return err
	})
	if err != nil {
		t.Fatal(err)
	}
}

// c03RunBatch is a copy of the dispatcher of src/hermes2go (doConcurrentBatchRun): at most n runs at a time in one session
func c03RunBatch(session *HermesSession, root string, lines []string, n int) []string {
	out := make(chan *RunReturn)
	logc := make(chan string)
	active := 0
	var errs []string
	receive := func() {
		select {
		case r := <-out:
			active--
			if !r.Success {
				errs = append(errs, r.String())
			}
		case <-logc:
		}
	}
	for i, line := range lines {
		for active == n {
			receive()
		}
		active++
		go session.Run(root, strings.Fields(line), fmt.Sprintf("[%d]", i), out, logc)
	}
	for active > 0 {
		receive()
	}
	return errs
}

func c03ReadResults(t *testing.T, dir string) map[string][]byte {
	t.Helper()
	res := map[string][]byte{}
	entries, err := os.ReadDir(dir)
	if err != nil {
		t.Fatal(err)
	}
	for _, e := range entries {
		b, err := os.ReadFile(filepath.Join(dir, e.Name()))
		if err != nil {
			t.Fatal(err)
		}
		res[e.Name()] = b
	}
	return res
}

func TestC03WeatherHeaderAliasDeterminism(t *testing.T) {
	examples, err := filepath.Abs(filepath.Join("..", "examples"))
	if err != nil {
		t.Fatal(err)
	}
	root := t.TempDir()
	c03CopyTree(t, filepath.Join(examples, "project", "ex1"), filepath.Join(root, "project", "ex1"))
	c03CopyTree(t, filepath.Join(examples, "parameter"), filepath.Join(root, "parameter"))
	if err := os.MkdirAll(filepath.Join(root, "weather", "historical"), 0o755); err != nil {
		t.Fatal(err)
	}

	// weather file = shipped 109_120.csv + one more station column: net radiation "RAD" (about 55% of globrad)
	raw, err := os.ReadFile(filepath.Join(examples, "weather", "historical", "109_120.csv"))
	if err != nil {
		t.Fatal(err)
	}
	var wf bytes.Buffer
	for i, line := range strings.Split(strings.ReplaceAll(string(raw), "\r", ""), "\n") {
		if line == "" {
			continue
		}
		switch i {
		case 0: // iso-date,tmin,tavg,tmax,precip,globrad,wind,relhumid,vaporpress,...
			wf.WriteString(line + ",RAD\n")
		case 1: // units
			wf.WriteString(line + ",MJ m-2\n")
		default:
			tok := strings.Split(line, ",")
			glob, err := strconv.ParseFloat(tok[5], 64)
			if err != nil {
				t.Fatalf("unexpected weather line %q", line)
			}
			wf.WriteString(fmt.Sprintf("%s,%.1f\n", line, 0.55*glob))
		}
	}
	if err := os.WriteFile(filepath.Join(root, "weather", "historical", "109_120.csv"), wf.Bytes(), 0o644); err != nil {
		t.Fatal(err)
	}

	// the very same batch line (first line of examples/all_muencheberg_batch.txt, shortened to 3 years), only the result folder differs
	const runs = 64
	batchLine := "project=ex1 WeatherFolder=historical soilId=075 fcode=109_120 plotNr=10001 Altitude=73 Latitude=52.6732 poligonID=29872 EndDate=12311982 resultfolder=%s"
	var lines []string
	for i := 0; i < runs; i++ {
		lines = append(lines, fmt.Sprintf(batchLine, filepath.Join(root, "RESULT", fmt.Sprintf("run%02d", i))))
	}
	session := NewHermesSession()
	defer session.Close()
	// first half one after the other, second half four at a time - same session, same (cached) inputs
	if errs := c03RunBatch(session, root, lines[:runs/2], 1); len(errs) > 0 {
		t.Fatalf("runs failed: %v", errs)
	}
	if errs := c03RunBatch(session, root, lines[runs/2:], 4); len(errs) > 0 {
		t.Fatalf("runs failed: %v", errs)
	}

	ref := c03ReadResults(t, filepath.Join(root, "RESULT", "run00"))
	if len(ref) < 3 {
		t.Fatalf("expected C, V and Y result files, got %d files", len(ref))
	}
	variants := map[string]int{}
	var differing []string
	for i := 0; i < runs; i++ {
		name := fmt.Sprintf("run%02d", i)
		res := c03ReadResults(t, filepath.Join(root, "RESULT", name))
		same := len(res) == len(ref)
		for f, b := range ref {
			if !bytes.Equal(res[f], b) {
				same = false
			}
		}
		if same {
			variants["identical to run00"]++
		} else {
			variants["different from run00"]++
			differing = append(differing, name)
		}
	}

	// diagnosis: which column does the header reader bind to global radiation?
	header := strings.SplitN(wf.String(), "\n", 2)[0]
	cols := map[int]int{}
	for i := 0; i < 200; i++ {
		cols[readHeader(header)[globrad]]++
	}
	var colInfo []string
	for c, n := range cols {
		colInfo = append(colInfo, fmt.Sprintf("column %d: %d times", c, n))
	}
	sort.Strings(colInfo)
	t.Logf("readHeader(%q): global radiation bound to %v", header, colInfo)

	if len(differing) > 0 {
		t.Errorf("C03 violated: %d identical runs of one batch line in one session gave %d result sets that differ from the first one (%v ...): %v",
			runs, len(differing), differing[:1], variants)
	}
}
