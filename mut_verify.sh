#!/bin/bash
# ./mut_verify.sh <worktree> <test-run-pattern> [tags]  : baseline with the change; demo tests (MUTANT/*_test.go copied to hermes/) fail with / pass without the change
WT="$1"; PAT="$2"; TAGS="${3:-}"
export GOPROXY=off GOSUMDB=off GOTOOLCHAIN=local; unset GOFLAGS
cd "$WT" || exit 2
git diff -- . ':!MUTANT' > /tmp/mv_cur.diff
if ! diff -q <(grep -v '^index ' /tmp/mv_cur.diff) <(grep -v '^index ' MUTANT/patch.diff) >/dev/null; then echo "NOTE: worktree diff differs from MUTANT/patch.diff"; fi
/verif/mut_baseline.sh "$WT" || echo "BASELINE BROKEN"
for m in hermes src/hermes2go src/calcHermesBatch src/cropfileconverter; do (cd $m && go build ./... ) || echo "BUILD FAILS in $m"; done
cp MUTANT/*_test.go hermes/ 2>/dev/null
T=""; [ -n "$TAGS" ] && T="-tags $TAGS"
(cd hermes && go test $T -vet=off -count=1 -run "$PAT" . > /tmp/mv_with.txt 2>&1); echo "with change: $(tail -1 /tmp/mv_with.txt)"
git apply -R MUTANT/patch.diff
(cd hermes && go test $T -vet=off -count=1 -run "$PAT" . > /tmp/mv_without.txt 2>&1); echo "without change: $(tail -1 /tmp/mv_without.txt)"
git apply MUTANT/patch.diff
for f in MUTANT/*_test.go; do rm -f hermes/$(basename $f); done
