package hermes

import (
	"bufio"
	"fmt"
	"io"
	"os"
	"path/filepath"
	"strings"
	"testing"
)

// TestC12SeparatorDatesAutoSowingWindow
//
// The date conversion accepts every date text with or without separators
// ("05112009" == "05.11.2009", see extractDate / TestDateConverter).  The
// automatic sowing window, however, is converted to internal day numbers from a
// text that is glued together as  <DDMM of automan.txt> + SAT[4:]  (input.go).
// With a sowing date written with separators SAT[4:] is "1.2009", the glued text
// "0110"+"1.2009" = "01101.2009" has the length of a long date with separators
// and is converted as 01.01.2009 instead of 01.10.2009.
//
// The test runs the shipped MUN example twice with automatic sowing; the two
// projects differ ONLY in the spelling of the rotation dates (without / with
// separators).  Both spellings denote the same calendar dates, so both runs have
// to sow on the same day, and that day has to be inside the sowing window of
// winter wheat in the shipped automan.txt (01.10. - 10.11.).
func TestC12SeparatorDatesAutoSowingWindow(t *testing.T) {
	examples, err := filepath.Abs(filepath.Join("..", "examples"))
	if err != nil {
		t.Fatal(err)
	}
	if _, err := os.Stat(filepath.Join(examples, "project", "MUN", "config.yml")); err != nil {
		t.Skipf("examples not found: %v", err)
	}

	rotation := func(sep string) string {
		d := func(dd, mm, yyyy string) string { return dd + sep + mm + sep + yyyy }
		return "Field_ID crp sowing harvst Re  yld autorg\n" +
			"NEU000001 WRA " + d("23", "08", "2008") + " " + d("27", "07", "2009") + " 100  54  0\n" +
			"NEU000001 WW  " + d("05", "11", "2009") + " " + d("16", "08", "2010") + " 100      0\n" +
			"end\n"
	}

	run := func(name, sep string) (sowing string) {
		root := filepath.Join(t.TempDir(), name)
		c12CopyDir(t, filepath.Join(examples, "project", "MUN"), filepath.Join(root, "project", "MUN"))
		c12CopyDir(t, filepath.Join(examples, "parameter"), filepath.Join(root, "parameter"))
		c12CopyDir(t, filepath.Join(examples, "weather", "MUN"), filepath.Join(root, "weather", "MUN"))

		// rotation of the field: previous crop + one winter wheat, sowing date in November
		if err := os.WriteFile(filepath.Join(root, "project", "MUN", "crop_MUN.txt"), []byte(rotation(sep)), 0o644); err != nil {
			t.Fatal(err)
		}
		// no tillage events for this field (keeps the demonstration free of the known tillage/auto-harvest issue)
		tilPath := filepath.Join(root, "project", "MUN", "til_MUN.txt")
		til, err := os.ReadFile(tilPath)
		if err != nil {
			t.Fatal(err)
		}
		var kept []string
		for _, l := range strings.Split(string(til), "\n") {
			if !strings.HasPrefix(l, "NEU000001") {
				kept = append(kept, l)
			}
		}
		if err := os.WriteFile(tilPath, []byte(strings.Join(kept, "\n")), 0o644); err != nil {
			t.Fatal(err)
		}

		outDir := filepath.Join(root, "OUT")
		args := []string{
			"project=MUN", "WeatherFolder=MUN", "soilId=001", "fcode=NEU", "plotNr=00001",
			"Altitude=55", "Latitude=54.00", "poligonID=MUN", "parameter=./parameter",
			"StartYear=2009", "EndDate=31122010",
			"AutoSowingHarvest=1", // automatic sowing inside the window of automan.txt
			"resultfolder=" + outDir,
		}
		out := make(chan *RunReturn, 1)
		logout := make(chan string, 1000)
		done := make(chan struct{})
		go func() {
			for range logout {
			}
			close(done)
		}()
		session := NewHermesSession()
		session.Run(root, args, name, out, logout)
		res := <-out
		session.Close()
		close(logout)
		<-done
		if !res.Success {
			t.Fatalf("run %s ended with an error: %v", name, res.Err)
		}

		// crop output: 2 header lines, then one line per harvested crop, first column = sowing date
		f, err := os.Open(filepath.Join(outDir, "CMUN00001.RES"))
		if err != nil {
			t.Fatal(err)
		}
		defer f.Close()
		sc := bufio.NewScanner(f)
		n := 0
		for sc.Scan() {
			n++
			if n == 3 {
				fields := strings.Fields(sc.Text())
				if len(fields) > 0 {
					sowing = fields[0]
				}
			}
		}
		if sowing == "" {
			t.Fatalf("run %s: no crop line in crop output", name)
		}
		return sowing
	}

	datum := DateConverter(0, DateDElong)
	// the two spellings ARE the same date for the conversion itself
	_, a := datum("05112009")
	_, b := datum("05.11.2009")
	if a != b {
		t.Fatalf("precondition: conversion of both spellings differs: %d %d", a, b)
	}
	_, winFrom := datum("01102009") // automan.txt: WW  0110 1011
	_, winTo := datum("10112009")

	sowPlain := run("plain", "")
	sowSep := run("separators", ".")
	_, sowPlainNum := datum(sowPlain)
	_, sowSepNum := datum(sowSep)
	t.Logf("sowing window of WW (automan.txt): 01.10.2009 - 10.11.2009 = day %d - %d", winFrom, winTo)
	t.Logf("rotation dates without separators: sown %s (day %d)", sowPlain, sowPlainNum)
	t.Logf("rotation dates with    separators: sown %s (day %d)", sowSep, sowSepNum)

	if sowPlainNum < winFrom || sowPlainNum > winTo {
		t.Errorf("without separators: sowing %s is outside the window 01.10.2009-10.11.2009", sowPlain)
	}
	if sowSepNum < winFrom || sowSepNum > winTo {
		t.Errorf("with separators: sowing %s is outside the window 01.10.2009-10.11.2009 "+
			"(window start text \"0110\"+\"1.2009\" was converted as 01.01.2009)", sowSep)
	}
	if sowPlain != sowSep {
		t.Errorf("the same calendar dates written with and without separators give different simulations: sown %s vs %s",
			sowPlain, sowSep)
	}
}

func c12CopyDir(t *testing.T, src, dst string) {
	t.Helper()
	err := filepath.Walk(src, func(p string, info os.FileInfo, err error) error {
		if err != nil {
			return err
		}
		rel, err := filepath.Rel(src, p)
		if err != nil {
			return err
		}
		target := filepath.Join(dst, rel)
		if info.IsDir() {
			return os.MkdirAll(target, 0o755)
		}
		in, err := os.Open(p)
		if err != nil {
			return err
		}
		defer in.Close()
		out, err := os.Create(target)
		if err != nil {
			return err
		}
		defer out.Close()
		_, err = io.Copy(out, in)
		return err
	})
	if err != nil {
		t.Fatal(fmt.Errorf("copy %s: %w", src, err))
	}
}
