package hermes

// Demonstration for property C05 (crop file: exactly one record per harvested crop of the
// rotation, in rotation order).
//
// Input: the shipped example project "rue" (automatic sowing / harvest / fertilization),
// field L2F3R1, with two edits of the rotation file crop_rue.csv:
//   - the sugar beet of 1983 gets autorg=1 (organic fertilizer after harvest, as configured
//     for ZR in the shipped automan.txt: "RM 200 H1"),
//   - the potato of 1984 is replaced by a winter barley sown 20.10.1983 (after the beet
//     harvest date 15.10.1983 of the rotation file).
// With automatic harvest the beet is harvested on the latest harvest date of automan.txt
// (25.10.1983); by then the sowing window of winter barley (10.09.-20.10.) is closed, so
// the model skips the barley. The harvested sugar beet then has NO record in the crop file:
// its record is overwritten by the "SKIPPED" placeholder of the barley before it is written.

import (
	"io"
	"os"
	"path/filepath"
	"strings"
	"testing"
)

func c05CopyDir(t *testing.T, src, dst string) {
	t.Helper()
	err := filepath.Walk(src, func(p string, info os.FileInfo, err error) error {
		if err != nil {
			return err
		}
		rel, _ := filepath.Rel(src, p)
		target := filepath.Join(dst, rel)
		if info.IsDir() {
			return os.MkdirAll(target, 0o755)
		}
		in, err := os.Open(p)
		if err != nil {
			return err
		}
		defer in.Close()
		out, err := os.Create(target)
		if err != nil {
			return err
		}
		defer out.Close()
		_, err = io.Copy(out, in)
		return err
	})
	if err != nil {
		t.Fatal(err)
	}
}

func c05Replace(t *testing.T, file, old, new string) {
	t.Helper()
	b, err := os.ReadFile(file)
	if err != nil {
		t.Fatal(err)
	}
	if strings.Count(string(b), old) != 1 {
		t.Fatalf("expected exactly one %q in %s", old, file)
	}
	if err := os.WriteFile(file, []byte(strings.Replace(string(b), old, new, 1)), 0o644); err != nil {
		t.Fatal(err)
	}
}

func c05Lines(t *testing.T, pattern string) []string {
	t.Helper()
	files, _ := filepath.Glob(pattern)
	if len(files) != 1 {
		t.Fatalf("expected one file for %s, got %v", pattern, files)
	}
	b, err := os.ReadFile(files[0])
	if err != nil {
		t.Fatal(err)
	}
	var lines []string
	for _, l := range strings.Split(string(b), "\n") {
		l = strings.TrimRight(l, "\r")
		if strings.TrimSpace(l) != "" {
			lines = append(lines, l)
		}
	}
	return lines
}

func TestC05HarvestedCropLosesRecordWhenNextCropIsSkipped(t *testing.T) {
	ex, err := filepath.Abs(filepath.Join("..", "examples"))
	if err != nil {
		t.Fatal(err)
	}
	root := t.TempDir()
	c05CopyDir(t, filepath.Join(ex, "project", "rue"), filepath.Join(root, "project", "rue"))
	c05CopyDir(t, filepath.Join(ex, "parameter"), filepath.Join(root, "parameter"))
	c05CopyDir(t, filepath.Join(ex, "weather", "historical"), filepath.Join(root, "weather", "historical"))

	rotation := filepath.Join(root, "project", "rue", "crop_rue.csv")
	// sugar beet 1983: organic fertilizer after harvest (autorg = 1)
	c05Replace(t, rotation, "L2F3R1,ZR ,10041983,15101983,000,000,0,,", "L2F3R1,ZR ,10041983,15101983,000,000,1,,")
	// potato 1984 -> winter barley sown 20.10.1983 (dates stay strictly ascending)
	c05Replace(t, rotation, "L2F3R1,K  ,30041984,10081984,000,000,0,,", "L2F3R1,WG ,20101983,25071984,000,000,0,,")

	res := filepath.Join(root, "RESULT")
	args := []string{"project=rue", "WeatherFolder=historical", "fcode=109_120", "plotNr=10001", "soilId=001",
		"Altitude=73", "Latitude=52.6732", "poligonID=29872", "EndDate=31121985", "resultfolder=" + res}

	session := NewHermesSession()
	defer session.Close()
	out := make(chan *RunReturn, 1)
	logout := make(chan string, 1000)
	session.Run(root, args, "c05", out, logout)
	if r := <-out; !r.Success {
		t.Fatalf("run failed: %v", r.Err)
	}

	// harvests the model actually performed (management event log, written by the harvest branch)
	var harvested []string
	for _, l := range c05Lines(t, filepath.Join(res, "M*")) {
		if i := strings.Index(l, " harvest Crop: "); i >= 0 {
			f := strings.Fields(l[i+len(" harvest Crop: "):])
			harvested = append(harvested, f[0])
			t.Logf("management log: %s", l)
		}
	}

	// records of the crop file
	lines := c05Lines(t, filepath.Join(res, "C*"))
	header := strings.Split(lines[0], ",")
	cropCol := -1
	for i, h := range header {
		if strings.TrimSpace(h) == "crop" {
			cropCol = i
		}
	}
	if cropCol < 0 {
		t.Fatalf("no crop column in %v", header)
	}
	var records, placeholders []string
	for _, l := range lines[2:] { // two head lines
		f := strings.Split(l, ",")
		if len(f) != len(header) {
			t.Errorf("record has %d fields, header %d: %s", len(f), len(header), l)
		}
		t.Logf("crop file     : %s", strings.Join(f[:cropCol+2], ","))
		if strings.TrimSpace(f[0]) == "SKIPPED" {
			placeholders = append(placeholders, l)
			continue
		}
		records = append(records, strings.TrimSpace(f[cropCol]))
	}

	want := []string{"WRA", "CCM", "ZR", "WW"} // rotation order; WG is skipped, WRA 1985 not yet harvested
	if strings.Join(harvested, " ") != strings.Join(want, " ") {
		t.Fatalf("unexpected harvest sequence %v, want %v (demo precondition)", harvested, want)
	}
	if len(placeholders) != 1 {
		t.Fatalf("expected the winter barley to be skipped once, got %d placeholders (demo precondition)", len(placeholders))
	}
	if strings.Join(records, " ") != strings.Join(harvested, " ") {
		t.Errorf("C05 violated: harvested crops %v, but crop file has records for %v - "+
			"a harvested crop of the rotation has no record", harvested, records)
	}
}
