#!/bin/bash
# ./seeded_all.sh <tier> <seed> [name-prefix]: evaluates every seeded change with the check of its property; one line per change
cd "$(dirname "$0")"
TIER="${1:-quick}"; SEED="${2:-20260929}"; PRE="${3:-}"
for d in seeded/${PRE}*/; do
  n=$(basename $d)
  out=$(VERIF_SEED=$SEED ./seeded_eval.sh $n $TIER 2>&1)
  if echo "$out" | grep -q "^VIOLATION"; then v=CAUGHT; else v=MISSED; fi
  echo "$v seed=$SEED $n $(echo "$out" | grep -c '^VIOLATION') violation line(s)"
done
