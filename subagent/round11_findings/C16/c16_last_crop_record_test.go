package hermes

import (
	"encoding/csv"
	"fmt"
	"io"
	"os"
	"path/filepath"
	"strings"
	"testing"
)

// TestC16LastCropRecordReplacedBySkipped
//
// Property C16: "Crops are grown in the order of the rotation, each crop record carries the
// crop code and harvest year of its rotation entry ...".
//
// Input: the shipped project examples/project/rue (all four automation switches on, shipped
// automan.txt, shipped parameter files and weather) with the rotation
//
//	WW (previous crop) -> SM 1981 -> WW 1981/82
//
// The sowing window of every crop opens after the latest harvest date of the crop before it
// (SM: latest harvest 10.09., WW window opens 01.10.). The only "unusual" thing is that the last
// winter wheat asks for the automatic organic fertilization of the automan table (column
// autorg = 1; the table says: RM, 200, "H1" = one day after harvest).
//
// Expected: two crop records, SM/1981 and WW/1982.
// Observed: the WW record is replaced by a record "SKIPPED / crop 000 / harvest year 0".
// The control run (same input, autorg = 0) writes the WW/1982 record.
func TestC16LastCropRecordReplacedBySkipped(t *testing.T) {
	examples, err := filepath.Abs(filepath.Join("..", "examples"))
	if err != nil {
		t.Fatal(err)
	}
	if _, err := os.Stat(filepath.Join(examples, "project", "rue", "config.yml")); err != nil {
		t.Skipf("examples not found: %v", err)
	}

	type rec struct {
		sowDate, crop, year string
	}
	run := func(autorg int) []rec {
		root := t.TempDir()
		c16CopyDir(t, filepath.Join(examples, "project", "rue"), filepath.Join(root, "project", "rue"))
		c16CopyDir(t, filepath.Join(examples, "parameter"), filepath.Join(root, "parameter"))
		c16CopyFile(t, filepath.Join(examples, "weather", "historical", "109_120.w6d"),
			filepath.Join(root, "weather", "historical", "109_120.w6d"))

		rotation := "Field_ID,crp,sowing,harvst,Rex,yld,autorg,variety,comment\n" +
			"L2F3R1,WW ,01101979,04081980,080,050,0,,initial\n" +
			"L2F3R1,SM ,20041981,05091981,000,000,0,,\n" +
			fmt.Sprintf("L2F3R1,WW ,01101981,04081982,000,000,%d,,\n", autorg)
		c16Write(t, filepath.Join(root, "project", "rue", "crop_rue.csv"), rotation)
		// no tillage (keeps the known tillage/automatic-harvest interaction out of the picture)
		c16Write(t, filepath.Join(root, "project", "rue", "til_rue.txt"), "Field_ID  Ti Typ date\n          cm\n")

		result := filepath.Join(root, "RESULT")
		args := []string{
			"project=rue", "WeatherFolder=historical", "fcode=109_120", "plotNr=10001", "soilId=001",
			"Altitude=73", "Latitude=52.6732", "poligonID=29872", "EndDate=31121982",
			"AutoSowingHarvest=1", "AutoFertilization=1", "AutoIrrigation=1", "AutoHarvest=1",
			"resultfolder=" + result,
		}
		session := NewHermesSession()
		defer session.Close()
		out := make(chan *RunReturn, 1)
		logout := make(chan string, 1000)
		go session.Run(root, args, "c16", out, logout)
		var res *RunReturn
		for res == nil {
			select {
			case res = <-out:
			case <-logout:
			}
		}
		if !res.Success {
			t.Fatalf("run failed: %v", res.Err)
		}
		session.Close()

		f, err := os.Open(filepath.Join(result, "C2987210001.csv"))
		if err != nil {
			t.Fatal(err)
		}
		defer f.Close()
		r := csv.NewReader(f)
		r.FieldsPerRecord = -1
		rows, err := r.ReadAll()
		if err != nil {
			t.Fatal(err)
		}
		header := rows[0]
		colCrop, colYear := -1, -1
		for i, h := range header {
			if h == "crop" {
				colCrop = i
			}
			if h == "Year" {
				colYear = i
			}
		}
		if colCrop < 0 || colYear < 0 {
			t.Fatalf("crop result header not understood: %v", header)
		}
		var recs []rec
		for _, row := range rows[2:] { // 2 header lines
			if len(row) <= colCrop {
				continue
			}
			recs = append(recs, rec{strings.TrimSpace(row[0]), strings.TrimSpace(row[colCrop]), strings.TrimSpace(row[colYear])})
		}
		return recs
	}

	want := []rec{{"", "SM", "1981"}, {"", "WW", "1982"}}

	control := run(0)
	t.Logf("control (autorg=0) crop records: %v", control)
	if len(control) != 2 || control[0].crop != "SM" || control[0].year != "1981" || control[1].crop != "WW" || control[1].year != "1982" {
		t.Fatalf("control run does not behave as expected: %v", control)
	}

	got := run(1)
	t.Logf("autorg=1 crop records:           %v", got)
	if len(got) != len(want) {
		t.Fatalf("C16 violated: expected %d crop records (SM 1981, WW 1982), got %v", len(want), got)
	}
	for i := range want {
		if got[i].crop != want[i].crop || got[i].year != want[i].year {
			t.Errorf("C16 violated: crop record %d is (sowing %q, crop %q, harvest year %q), rotation entry is crop %q harvested in %q",
				i+1, got[i].sowDate, got[i].crop, got[i].year, want[i].crop, want[i].year)
		}
	}
}

func c16Write(t *testing.T, name, content string) {
	t.Helper()
	if err := os.MkdirAll(filepath.Dir(name), 0o755); err != nil {
		t.Fatal(err)
	}
	if err := os.WriteFile(name, []byte(content), 0o644); err != nil {
		t.Fatal(err)
	}
}

func c16CopyFile(t *testing.T, src, dst string) {
	t.Helper()
	in, err := os.Open(src)
	if err != nil {
		t.Fatal(err)
	}
	defer in.Close()
	if err := os.MkdirAll(filepath.Dir(dst), 0o755); err != nil {
		t.Fatal(err)
	}
	out, err := os.Create(dst)
	if err != nil {
		t.Fatal(err)
	}
	defer out.Close()
	if _, err := io.Copy(out, in); err != nil {
		t.Fatal(err)
	}
}

func c16CopyDir(t *testing.T, src, dst string) {
	t.Helper()
	entries, err := os.ReadDir(src)
	if err != nil {
		t.Fatal(err)
	}
	for _, e := range entries {
		if e.IsDir() {
			continue
		}
		c16CopyFile(t, filepath.Join(src, e.Name()), filepath.Join(dst, e.Name()))
	}
}
