package main

import (
	"fmt"
	"math"
	"os"
	"strconv"
	"strings"

	"github.com/zalf-rpm/Hermes2Go/hermes"
)

// =====================================================================================
// C09: crop state valid, development monotone
// =====================================================================================

type cropCycle struct {
	akf       int
	crop      string
	sow       int
	stageDay  map[int]int // stage index -> absolute day it was first seen
	lastStage int
	harvest   int
	judge     bool // annual main crop (permanent crops are grown but not judged)
}

type monC09 struct {
	cur      *cropCycle
	cycles   []*cropCycle
	stressW  bool
	stressN  bool
	stagesOK int
}

func (m *monC09) Event(ev *hermes.VerifEvent, rc *RunCtx) {
	g := ev.G
	if ev.Site != "day_end" && ev.Site != "pre_nitro" {
		return
	}
	a := g.AKF.Index
	if ev.Site == "pre_nitro" {
		// harvest happens inside the N routine of sub-step 1: remember the cycle before it is closed
		if ev.Subd == 1 && m.cur != nil && ev.Zeit == g.ERNTE[a] && m.cur.akf == a {
			m.cur.harvest = ev.Zeit
			m.closeCycle(rc, ev.Zeit)
		}
		return
	}
	growing := a > 0 && g.SAAT[a] > 0 && ev.Zeit >= g.SAAT[a] && (g.ERNTE[a] == 0 || ev.Zeit < g.ERNTE[a])
	if !growing {
		return
	}
	if m.cur == nil || m.cur.akf != a {
		m.cur = &cropCycle{akf: a, crop: g.CropTypeToString(g.FRUCHT[a], false), sow: g.SAAT[a], stageDay: map[int]int{}, lastStage: -1}
		m.cur.judge = a < len(rc.Sc.Rotation) && cropInfo(rc.Sc.Rotation[a].Crop) != nil
		m.cycles = append(m.cycles, m.cur)
	}
	if !m.cur.judge {
		rc.Cov("cropdays_permanent_crop_not_judged", 1)
		return
	}
	const eps = 1e-9
	chk := func(name string, v float64) {
		if !finite(v) {
			rc.Violate("C09", nanSig(g, "crop_state_not_finite"), fmt.Sprintf("%s of %s is %v", name, m.cur.crop, v), ev.Zeit, 0, nil)
		} else if v < -eps {
			rc.Violate("C09", "crop_state_negative:"+name, fmt.Sprintf("%s of %s is negative: %.17g", name, m.cur.crop, v), ev.Zeit, 0, nil)
		}
	}
	for i := 0; i < g.NRKOM && i < len(g.WORG); i++ {
		chk(fmt.Sprintf("organ_%d_mass", i+1), g.WORG[i])
	}
	chk("above_ground_biomass", g.OBMAS)
	chk("root_biomass", g.WUMAS)
	chk("leaf_area_index", g.LAI)
	chk("assimilate_pool", g.ASPOO)
	chk("crop_n_content", g.PESUM)
	if g.GEHOB < 0 && finite(g.GEHOB) && g.WUMAS*g.WUGEH > g.PESUM {
		rc.Violate("C09", "shoot_n_negative_root_cap", fmt.Sprintf("shoot N concentration of %s is negative (%.6g): crop N %.6g is less than root mass %.6g x root N concentration %.6g", m.cur.crop, g.GEHOB, g.PESUM, g.WUMAS, g.WUGEH), ev.Zeit, 0, nil)
	} else {
		chk("shoot_n_concentration", g.GEHOB)
	}
	chk("root_n_concentration", g.WUGEH)
	if !(g.TRREL >= -eps && g.TRREL <= 1+eps) {
		rc.Violate("C09", "water_stress_factor_out_of_range", fmt.Sprintf("water stress factor %.17g outside [0,1]", g.TRREL), ev.Zeit, 0, nil)
	}
	if !(g.REDUK >= -eps && g.REDUK <= 1+eps) {
		rc.Violate("C09", "n_stress_factor_out_of_range", fmt.Sprintf("N stress factor %.17g outside [0,1]", g.REDUK), ev.Zeit, 0, nil)
	}
	// rooting depth: not deeper than the profile nor the soil's root limit (scaled by the crop factor, clipped to [1,N])
	wurm := math.Round(float64(g.WURZMAX) * (g.WUMAXPF / 11.))
	if wurm > float64(g.N) {
		wurm = float64(g.N)
	}
	if wurm < 1 {
		wurm = 1
	}
	if g.WURZ > g.N || float64(g.WURZ) > wurm {
		rc.Violate("C09", "rooting_depth_exceeds_limit", fmt.Sprintf("rooting depth %d layers exceeds profile (%d) or soil root limit (%v)", g.WURZ, g.N, wurm), ev.Zeit, 0, nil)
	}
	if g.WURZ < 0 {
		rc.Violate("C09", "rooting_depth_negative", fmt.Sprintf("rooting depth %d", g.WURZ), ev.Zeit, 0, nil)
	}
	st := g.INTWICK.Index
	// annual or permanent is taken from the generator's own crop table (judge), not from the model's flag
	if st < m.cur.lastStage {
		rc.Violate("C09", "development_stage_decreased", fmt.Sprintf("development stage of %s went from %d back to %d", m.cur.crop, m.cur.lastStage, st), ev.Zeit, 0, nil)
	}
	if st != m.cur.lastStage {
		if _, ok := m.cur.stageDay[st]; !ok {
			m.cur.stageDay[st] = ev.Zeit
		}
		m.cur.lastStage = st
	}
	if g.TRREL < 0.95 {
		m.stressW = true
		rc.Cov("cropdays_water_stress", 1)
	}
	if g.REDUK < 0.95 {
		m.stressN = true
		rc.Cov("cropdays_n_stress", 1)
	}
	if g.LURED < 1 {
		rc.Cov("cropdays_air_shortage", 1)
	}
	rc.Cov("cropdays", 1)
	rc.Cov("cropdays_"+m.cur.crop, 1)
	rc.CovMax("max_stage_"+m.cur.crop, int64(st+1))
}

func (m *monC09) closeCycle(rc *RunCtx, zeit int) {
	c := m.cur
	if !c.judge {
		rc.Cov("permanent_crop_cycles_not_judged", 1)
		m.cur = nil
		return
	}
	// stage days must be ordered: sowing <= emergence(1) <= ... <= harvest
	prev := c.sow
	for s := 0; s < 10; s++ {
		if d, ok := c.stageDay[s]; ok {
			if d < prev {
				rc.Violate("C09", "phenology_order", fmt.Sprintf("%s: stage %d reached on day %d before the previous event on day %d", c.crop, s, d, prev), zeit, 0, nil)
			}
			prev = d
		}
	}
	if c.harvest < prev {
		rc.Violate("C09", "phenology_order", fmt.Sprintf("%s: harvest on day %d before the last stage change on day %d", c.crop, c.harvest, prev), zeit, 0, nil)
	}
	m.stagesOK++
	rc.Cov("crop_cycles_completed", 1)
	m.cur = nil
}

func (m *monC09) Finish(rc *RunCtx) {
	// the crop result file must agree with what was observed
	path := resultFile(rc, "C")
	if path != "" && rc.Sc.ResultFormat == 1 {
		b, _ := os.ReadFile(path)
		lines := strings.Split(strings.ReplaceAll(string(b), "\r\n", "\n"), "\n")
		recs := 0
		var done []*cropCycle
		for _, c := range m.cycles {
			if c.harvest > 0 {
				done = append(done, c)
			}
		}
		for _, l := range lines[1:] {
			if strings.TrimSpace(l) == "" {
				continue
			}
			f := strings.Split(l, ",")
			if len(f) < 8 {
				continue
			}
			if recs < len(done) && done[recs].judge {
				c := done[recs]
				// columns: Crop,SowDate,SowDOY,EmergDOY,AnthDOY,MatDOY,HarvestDOY,HarvestYear
				sowDOY, _ := strconv.Atoi(strings.TrimSpace(f[2]))
				harvDOY, _ := strconv.Atoi(strings.TrimSpace(f[6]))
				harvY, _ := strconv.Atoi(strings.TrimSpace(f[7]))
				hd := DateOfZeit(c.harvest)
				if sowDOY != DateOfZeit(c.sow).DOY() || harvDOY != hd.DOY() || harvY != hd.Y {
					rc.Violate("C09", "crop_record_disagrees", fmt.Sprintf("crop record %d (%s) reports sowing doy %d harvest doy %d year %d, observed sowing %s harvest %s", recs+1, strings.TrimSpace(f[0]), sowDOY, harvDOY, harvY, DateOfZeit(c.sow), hd), c.harvest, 0, nil)
				}
				// the reported phenology itself is ordered: walking forward from the sowing day through the reported days of
				// year of emergence, anthesis and maturity must arrive exactly at the harvest day (a date that is out of order
				// costs a whole extra year)
				{
					at := DateOfZeit(c.sow)
					okWalk := true
					for _, col := range []int{3, 4, 5, 6} {
						doy, _ := strconv.Atoi(strings.TrimSpace(f[col]))
						if doy == 0 {
							continue // stage not reached
						}
						steps := 0
						for at.DOY() != doy && steps < 800 {
							at = at.AddDays(1)
							steps++
						}
						if steps >= 800 {
							okWalk = false
							break
						}
					}
					// (a ripe crop that waits for a harvest deadline in a later year arrives whole years early: only the day of year can be
					// compared then; a date that is out of order still costs a year and ends BEHIND the harvest)
					if !okWalk || at.Zeit() > c.harvest || at.DOY() != DateOfZeit(c.harvest).DOY() {
						rc.Violate("C09", "reported_phenology_out_of_order", fmt.Sprintf("crop record %d (%s): sowing %s, reported days of year emergence %s anthesis %s maturity %s harvest %s do not lie in this order before the harvest on %s", recs+1, strings.TrimSpace(f[0]), DateOfZeit(c.sow), strings.TrimSpace(f[3]), strings.TrimSpace(f[4]), strings.TrimSpace(f[5]), strings.TrimSpace(f[6]), hd), c.harvest, 0, nil)
					} else {
						rc.Cov("crop_records_phenology_order_checked", 1)
					}
				}
				for col, stage := range map[int]int{3: 1, 4: 4, 5: 5} {
					rep, _ := strconv.Atoi(strings.TrimSpace(f[col]))
					if d, ok := c.stageDay[stage]; ok && rep != 0 && rep != DateOfZeit(d).DOY() {
						rc.Violate("C09", "crop_record_disagrees", fmt.Sprintf("crop record %d (%s) reports stage %d on doy %d, observed %s (doy %d)", recs+1, strings.TrimSpace(f[0]), stage, rep, DateOfZeit(d), DateOfZeit(d).DOY()), c.harvest, 0, nil)
					}
				}
			}
			recs++
		}
		rc.Cov("crop_records_checked", int64(recs))
	}
	rc.Res.NonTrivial = rc.Res.Cov["cropdays"] > 30
}
