package hermes

// C18 finding: a crop-parameter override whose value is NaN passes the range validation
// (isValidCropOverwrite) and is applied, although it is outside every valid range.
// The run is then NOT identical to a run without overrides (NaN results or a panic).

import (
	"fmt"
	"io/fs"
	"os"
	"path/filepath"
	"sort"
	"strings"
	"testing"
)

func c18nanCopyTree(t *testing.T, src, dst string) {
	t.Helper()
	err := filepath.WalkDir(src, func(p string, d fs.DirEntry, err error) error {
		if err != nil {
			return err
		}
		rel, _ := filepath.Rel(src, p)
		target := filepath.Join(dst, rel)
		if d.IsDir() {
			return os.MkdirAll(target, 0755)
		}
		data, err := os.ReadFile(p)
		if err != nil {
			return err
		}
		return os.WriteFile(target, data, 0644)
	})
	if err != nil {
		t.Fatal(err)
	}
}

// c18nanRun runs one simulation in-process and returns the result files, the log lines,
// the run error and a recovered panic (if any)
func c18nanRun(root, resDir string, args []string) (files map[string]string, logs []string, runErr error, panicked interface{}) {
	os.MkdirAll(resDir, 0755)
	session := NewHermesSession()
	defer session.Close()
	out := make(chan *RunReturn, 1)
	logout := make(chan string, 100000)
	all := append(append([]string{}, args...), "resultfolder="+resDir)
	func() {
		defer func() { panicked = recover() }()
		session.Run(root, all, "c18", out, logout)
	}()
	if panicked == nil {
		res := <-out
		runErr = res.Err
	}
	close(logout)
	for l := range logout {
		logs = append(logs, l)
	}
	files = map[string]string{}
	entries, _ := os.ReadDir(resDir)
	for _, e := range entries {
		b, _ := os.ReadFile(filepath.Join(resDir, e.Name()))
		files[e.Name()] = string(b)
	}
	return
}

func c18nanDiff(a, b map[string]string) string {
	names := map[string]bool{}
	for k := range a {
		names[k] = true
	}
	for k := range b {
		names[k] = true
	}
	sorted := []string{}
	for k := range names {
		sorted = append(sorted, k)
	}
	sort.Strings(sorted)
	for _, k := range sorted {
		if a[k] != b[k] {
			la := strings.Split(a[k], "\n")
			lb := strings.Split(b[k], "\n")
			for i := 0; i < len(la) && i < len(lb); i++ {
				if la[i] != lb[i] {
					return fmt.Sprintf("file %s line %d:\n   with override: %s\n   no override  : %s", k, i+1, la[i], lb[i])
				}
			}
			return fmt.Sprintf("file %s differs in length (%d vs %d lines)", k, len(la), len(lb))
		}
	}
	return ""
}

func TestC18NaNOverrideIsNotRejected(t *testing.T) {
	root := t.TempDir()
	c18nanCopyTree(t, filepath.Join("..", "examples"), root)

	// shipped project MUN, one field: preceding crop, then winter wheat twice (shipped PARAM.WW)
	rot := "Field_ID crp sowing harvst Re  yld autorg\n" +
		"TST000001 WRA 23082008 27072009 100  54  0\n" +
		"TST000001 WW  18092009 16082010 100  0   0\n" +
		"TST000001 WW  18092010 16082011 100  0   0\n" +
		"end\n"
	if err := os.WriteFile(filepath.Join(root, "project", "MUN", "crop_MUN.txt"), []byte(rot), 0644); err != nil {
		t.Fatal(err)
	}
	poly := "Polyg SID Field_ID  GH GL Ir comment\n00001 001 TST000001 24 24 0 \nend\n"
	if err := os.WriteFile(filepath.Join(root, "project", "MUN", "poly_MUN.txt"), []byte(poly), 0644); err != nil {
		t.Fatal(err)
	}
	baseArgs := []string{"project=MUN", "WeatherFolder=MUN", "soilId=001", "fcode=NEU", "plotNr=00001", "poligonID=MUN", "EndDate=31122011"}

	base, _, err, p := c18nanRun(root, filepath.Join(root, "res_base"), baseArgs)
	if err != nil || p != nil {
		t.Fatalf("base run failed: %v %v", err, p)
	}
	if len(base) == 0 {
		t.Fatal("base run wrote no result files")
	}

	type tc struct {
		name      string
		overrides []string
	}
	cases := []tc{
		// control: an ordinary out-of-range value next to valid ones -> whole override rejected (holds)
		{"control_MAXAMAX_101", []string{"c_TSUM_2=400", "c_MINTMP=7", "c_MAXAMAX=101"}},
		// NaN is outside every valid range, but is applied
		{"TSUM_2_NaN", []string{"c_MINTMP=7", "c_TSUM_2=NaN"}},
		{"PRO_3_2_nan", []string{"c_TSUM_2=400", "c_PRO_3_2=nan"}},
		{"YIFAK_NaN", []string{"c_TSUM_2=400", "c_YIFAK=NaN"}},
		{"MAXAMAX_NaN", []string{"c_TSUM_2=400", "c_MAXAMAX=NaN"}},
	}
	for i, c := range cases {
		args := append(append([]string{}, baseArgs...), "CropFile=PARAM.WW")
		args = append(args, c.overrides...)
		a, logs, errA, panicked := c18nanRun(root, filepath.Join(root, fmt.Sprintf("res_%d", i)), args)
		rejected := 0
		for _, l := range logs {
			if strings.Contains(l, "Error in crop overwrite parameters") {
				rejected++
			}
		}
		if panicked != nil {
			t.Errorf("%s %v: out-of-range override was applied and the run PANICKED: %v", c.name, c.overrides, panicked)
			continue
		}
		if errA != nil {
			t.Errorf("%s %v: run ended with error: %v", c.name, c.overrides, errA)
			continue
		}
		if d := c18nanDiff(a, base); d != "" {
			t.Errorf("%s %v: override not rejected as a whole (rejection messages: %d); run differs from the run without overrides:\n  %s", c.name, c.overrides, rejected, d)
		} else {
			t.Logf("%s %v: rejected (%d messages), run identical to run without overrides", c.name, c.overrides, rejected)
		}
	}
}
