package main

import (
	"crypto/sha256"
	"encoding/hex"
	"encoding/json"
	"fmt"
	"os"
	"path/filepath"
	"sync"
	"sync/atomic"
	"time"

	"github.com/anishathalye/porcupine"
	"github.com/zalf-rpm/Hermes2Go/hermes"
)

// File pool history check (C03): many goroutines call the real FilePool.Get on a few paths while a writer keeps
// replacing the files on disk (atomic rename). Recorded history {call, return, path, version returned} is checked
// per path (P-compositionality) with porcupine against the sequential model
//     disk register D, cache C (initially empty):  write(v): D=v ;  get() -> r: if C empty then r==D, C=r else r==C.
// Run with a harness built with -race (vmon_race), so the race detector watches the same workload.

type poolIn struct {
	Path  string
	Write bool
	Ver   string
}

type poolState struct {
	Disk, Cache string
}

func poolModel() porcupine.Model {
	return porcupine.Model{
		Partition: func(history []porcupine.Operation) [][]porcupine.Operation {
			m := map[string][]porcupine.Operation{}
			var keys []string
			for _, op := range history {
				k := op.Input.(poolIn).Path
				if _, ok := m[k]; !ok {
					keys = append(keys, k)
				}
				m[k] = append(m[k], op)
			}
			var out [][]porcupine.Operation
			for _, k := range keys {
				out = append(out, m[k])
			}
			return out
		},
		Init: func() interface{} { return poolState{} },
		Step: func(state, input, output interface{}) (bool, interface{}) {
			st := state.(poolState)
			in := input.(poolIn)
			if in.Write {
				st.Disk = in.Ver
				return true, st
			}
			r := output.(string)
			if st.Cache == "" {
				if r != st.Disk {
					return false, st
				}
				st.Cache = r
				return true, st
			}
			return r == st.Cache, st
		},
		Equal: func(a, b interface{}) bool { return a.(poolState) == b.(poolState) },
		DescribeOperation: func(input, output interface{}) string {
			in := input.(poolIn)
			if in.Write {
				return fmt.Sprintf("write(%s,%s)", filepath.Base(in.Path), in.Ver)
			}
			return fmt.Sprintf("get(%s)->%v", filepath.Base(in.Path), output)
		},
	}
}

func poolHistMain(seed uint64, tier, resPath string) {
	out := &poolResult{Cov: map[string]int64{}}
	rounds := 100
	if tier == "thorough" {
		rounds = 1000
	}
	dir, _ := os.MkdirTemp(scratchBase, "poolfiles")
	defer os.RemoveAll(dir)
	r := NewRng(mix(seed, 4242))
	var clock int64
	now := func() int64 { return atomic.AddInt64(&clock, 1) }
	verOf := func(b []byte) string {
		h := sha256.Sum256(b)
		return hex.EncodeToString(h[:6])
	}
	// file sizes from a few bytes to several MiB (whatever the pool does differently for small and large files)
	sizes := []int{0, 0, 3 << 10, 70 << 10, 257 << 10, 300 << 10, 1500 << 10, 4 << 20}
	pad := func(head string, size int, rr *Rng) []byte {
		b := []byte(head)
		if size > len(b) {
			ext := make([]byte, size-len(b))
			x := rr.U64()
			for i := range ext {
				x = x*6364136223846793005 + 1442695040888963407
				ext[i] = byte('a' + (x>>33)%26)
				if i%80 == 79 {
					ext[i] = '\n'
				}
			}
			b = append(b, ext...)
		}
		return b
	}
	for round := 0; round < rounds; round++ {
		session := hermes.NewHermesSession()
		nPaths := r.Range(1, 3)
		paths := make([]string, nPaths)
		fsize := make([]int, nPaths)
		var mu sync.Mutex
		var ops []porcupine.Operation
		record := func(op porcupine.Operation) {
			mu.Lock()
			ops = append(ops, op)
			mu.Unlock()
		}
		// initial content of every path = a completed write before anything else
		for i := range paths {
			paths[i] = filepath.Join(dir, fmt.Sprintf("r%d_f%d.txt", round, i))
			fsize[i] = sizes[r.Intn(len(sizes))]
			if round%2 != 0 && fsize[i] > 300<<10 {
				fsize[i] = 300 << 10 // the largest files in half of the rounds (cost under the race detector)
			}
			if fsize[i] > 256<<10 {
				out.Cov["pool_files_above_256KiB"]++
			}
			content := pad(fmt.Sprintf("round %d file %d version 0 %d\n", round, i, r.U64()), fsize[i], r)
			t0 := now()
			os.WriteFile(paths[i], content, 0644)
			record(porcupine.Operation{ClientId: 0, Input: poolIn{Path: paths[i], Write: true, Ver: verOf(content)}, Call: t0, Output: "", Return: now()})
		}
		nReaders := r.Range(2, 8)
		storm := r.Bool(0.6)
		if storm {
			out.Cov["pool_rounds_first_load_storm"]++
		}
		nGets := r.Range(2, 6)
		var wg sync.WaitGroup
		start := make(chan struct{})
		// writer: replaces files atomically while readers are active
		wg.Add(1)
		go func(wseed uint64) {
			defer wg.Done()
			wr := NewRng(wseed)
			<-start
			for k := 1; k <= 3; k++ {
				pi := wr.Intn(len(paths))
				p := paths[pi]
				content := pad(fmt.Sprintf("%s version %d %d\n", filepath.Base(p), k, wr.U64()), fsize[pi], wr)
				tmp := p + ".tmp"
				os.WriteFile(tmp, content, 0644)
				t0 := now()
				os.Rename(tmp, p)
				record(porcupine.Operation{ClientId: 1, Input: poolIn{Path: p, Write: true, Ver: verOf(content)}, Call: t0, Output: "", Return: now()})
				if wr.Bool(0.5) {
					time.Sleep(time.Duration(wr.Intn(200)) * time.Microsecond)
				}
			}
		}(r.U64())
		for c := 0; c < nReaders; c++ {
			wg.Add(1)
			go func(c int, rseed uint64) {
				defer wg.Done()
				rr := NewRng(rseed)
				<-start
				for k := 0; k < nGets; k++ {
					p := paths[rr.Intn(len(paths))]
					if k == 0 && storm {
						p = paths[0] // first-load storm: every reader asks for the same uncached file at once
					}
					t0 := now()
					b := session.HermesFilePool.Get(&hermes.FileDescriptior{FilePath: p, UseFilePool: true, ContinueOnError: true})
					t1 := now()
					record(porcupine.Operation{ClientId: 2 + c, Input: poolIn{Path: p}, Call: t0, Output: verOf(b), Return: t1})
					if rr.Bool(0.3) {
						time.Sleep(time.Duration(rr.Intn(100)) * time.Microsecond)
					}
				}
			}(c, r.U64())
		}
		close(start)
		wg.Wait()
		session.Close()
		res, info := porcupine.CheckOperationsVerbose(poolModel(), ops, 30*time.Second)
		out.Cov["pool_history_operations"] += int64(len(ops))
		out.Cov["pool_histories_checked"]++
		switch res {
		case porcupine.Illegal:
			_ = info
			var desc []string
			for _, op := range ops {
				desc = append(desc, fmt.Sprintf("[c%d %d-%d %s]", op.ClientId, op.Call, op.Return, poolModel().DescribeOperation(op.Input, op.Output)))
			}
			if len(out.Violations) < 3 {
				out.Violations = append(out.Violations, Violation{Prop: "C03", Sig: "file_pool_history_not_linearizable", Msg: fmt.Sprintf("file pool history of round %d is not linearizable against the load-once model: %v", round, desc)})
			}
		case porcupine.Unknown:
			out.Inconclusive = "porcupine timed out on a pool history"
		}
		// distinct versions readers observed per path (the interleavings seen)
		seen := map[string]bool{}
		for _, op := range ops {
			if !op.Input.(poolIn).Write {
				seen[op.Input.(poolIn).Path+op.Output.(string)] = true
			}
		}
		if len(seen) > 0 {
			out.Cov["pool_distinct_path_versions_served"] += int64(len(seen))
		}
	}
	b, _ := json.Marshal(out)
	os.WriteFile(resPath, b, 0644)
}
