package main

import (
	"fmt"
	"math"
	"sort"
	"time"

	"github.com/zalf-rpm/Hermes2Go/hermes"
)

// =====================================================================================
// C20 (function level): the public interpolation function on generated ascending series
// =====================================================================================

func init() {
	fnProps["C20"] = func(tier string, seed uint64, shard, nshards int, begin func(string)) *FnResult {
		res := &FnResult{}
		nSeries := 1500
		if tier == "thorough" {
			nSeries = 60000
		}
		r := NewRng(mix(seed, uint64(shard)+2020))
		for si := shard; si < nSeries; si += nshards {
			if si%500 == shard%500 {
				begin(fmt.Sprintf("series %d", si))
			}
			g := hermes.NewGlobalVarsMain()
			g.GWTimeSeriesValues = map[int]float64{}
			k := r.Range(1, 30)
			if r.Bool(0.2) {
				k = r.Range(1, 3)
			}
			d := r.Range(2, 70000)
			var pts [][2]float64
			for i := 0; i < k; i++ {
				lvl := float64(r.Range(0, 400)) / 10
				if i > 0 && r.Bool(0.2) {
					lvl = pts[r.Intn(len(pts))][1] // plateau / revisited level
				}
				g.GWTimeSeriesValues[d] = lvl
				g.GWTimestamps = append(g.GWTimestamps, d)
				pts = append(pts, [2]float64{float64(d), lvl})
				gap := r.Range(1, 400)
				if r.Bool(0.3) {
					gap = r.Range(1, 3)
				}
				d += gap
			}
			first, last := int(pts[0][0]), int(pts[len(pts)-1][0])
			// queries: every node, both neighbours of every node, outside, random inside
			var qs []int
			for _, p := range pts {
				qs = append(qs, int(p[0]), int(p[0])-1, int(p[0])+1)
			}
			qs = append(qs, first-r.Range(1, 5000), last+r.Range(1, 5000), 1)
			for i := 0; i < 10; i++ {
				qs = append(qs, r.Range(first, last))
			}
			for _, q := range qs {
				if q < 1 {
					continue
				}
				got, err := hermes.GetGroundWaterLevel(&g, q)
				res.Evals++
				if err != nil {
					res.violate("C20", "gw_lookup_error", fmt.Sprintf("series %v: query day %d returned error %v", pts, q, err), nil)
					continue
				}
				// independent reference
				var want, lo, hi float64
				idx := sort.Search(len(pts), func(i int) bool { return int(pts[i][0]) >= q })
				switch {
				case idx < len(pts) && int(pts[idx][0]) == q:
					want = pts[idx][1]
					lo, hi = want, want
					res.cov("queries_on_node", 1)
				case idx == 0:
					want = pts[0][1]
					lo, hi = want, want
					res.cov("queries_before_first", 1)
				case idx == len(pts):
					want = pts[len(pts)-1][1]
					lo, hi = want, want
					res.cov("queries_after_last", 1)
				default:
					a, b := pts[idx-1], pts[idx]
					f := (float64(q) - a[0]) / (b[0] - a[0])
					want = a[1] + f*(b[1]-a[1])
					lo, hi = math.Min(a[1], b[1]), math.Max(a[1], b[1])
					res.cov("queries_interpolated", 1)
					res.NonTrivial++
				}
				if math.Abs(got-want) > 1e-9*math.Max(1, math.Abs(want)) {
					res.violate("C20", "gw_series_mismatch", fmt.Sprintf("series %v: level for day %d is %.12g, expected %.12g", pts, q, got, want), map[string]float64{"got": got, "want": want})
				}
				if got < lo || got > hi { // "hence between the two values": exactly, a plateau must be returned as it is
					res.violate("C20", "gw_outside_neighbours", fmt.Sprintf("series %v: level for day %d is %.12g, outside the neighbouring values [%.12g, %.12g]", pts, q, got, lo, hi), nil)
				}
			}
			res.cov("series", 1)
			if si == shard {
				res.sample(map[string]interface{}{"series_day_level": pts, "queries": qs[:mini(len(qs), 12)]})
			}
		}
		return res
	}

	otherChecks["C20"] = func(tier string, seed uint64) int {
		t0 := time.Now()
		n := 1500
		if tier == "thorough" {
			n = 30000
		}
		results, inconclusive := runCasesSharded("C20", tier, seed, n)
		rs := runFnSharded("C20", tier, seed, fnShards["C20"], 900)
		cases, inc := fnToCases("C20", seed, rs, func(r *FnResult) string { return "crash:gw_lookup" })
		results = append(results, cases...)
		inconclusive = append(inconclusive, inc...)
		spec := checkSpec{Prop: "C20", Level: "exploration",
			Rule:   "run level: generated projects with a groundwater time series (ascending dates, random gaps, plateaus, revisited levels, series starting before/after the simulation start; a third of them shifted so that an entry sits on, just before or just after the simulation start or the end date) or polygon min/max levels with phase; the level used on every simulated day is compared with an independent interpolation / sinusoid. Function level: the public interpolation function on generated ascending series, queried at every node, both neighbours of every node, outside the span and at random interior days. evaluations = runs + function calls; non-trivial = runs >30 days with interpolated or outside days + function calls strictly between two nodes",
			Floors: []string{"days", "days_interpolated", "days_outside_series", "days_on_series_date", "days_polygon_mode", "queries_interpolated", "queries_on_node", "queries_before_first", "queries_after_last"}}
		return finishCheck(spec, tier, seed, results, inconclusive, t0, nil)
	}
}
