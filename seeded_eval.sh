#!/bin/bash
# ./seeded_eval.sh <seeded-dir-name> [tier] [check ...]
# Applies /verif/seeded/<name>/patch.diff to /repo, runs the given checks (default: the property named in meta.json),
# prints their verdict lines and ALWAYS restores /repo afterwards.
set -u
cd "$(dirname "$0")"
NAME="$1"; TIER="${2:-quick}"; shift; shift || true
DIR="seeded/$NAME"
[ -f "$DIR/patch.diff" ] || { echo "no $DIR/patch.diff"; exit 2; }
if [ -n "$(git -C /repo status --porcelain --untracked-files=no)" ]; then echo "/repo has uncommitted changes to tracked files"; exit 2; fi
CHECKS="$*"
export VERIF_EVIDENCE_DIR="$PWD/.build/evidence_seeded"   # never overwrite the evidence of the unchanged tree
if [ -z "$CHECKS" ]; then CHECKS=$(python3 -c "import json;print(json.load(open('$DIR/meta.json'))['property'])"); fi
git -C /repo apply "$PWD/$DIR/patch.diff" || { echo "patch does not apply"; exit 2; }
trap 'git -C /repo checkout -- . ; ./build.sh all >/dev/null 2>&1' EXIT
for c in $CHECKS; do
  out=$(./check.sh $c $TIER 2>&1); rc=$?
  echo "== $NAME: check $c $TIER exit=$rc"
  echo "$out" | grep -E "^(VIOLATION|INCONCLUSIVE|  signature)" | cut -c1-300 | head -6
  echo "$out" | tail -1 | cut -c1-200
done
