#!/bin/bash
# ./coverage.sh [tier] [property ...]
# Blind-spot finder for the workloads (not a check, not registered in MANIFEST): builds the harness and the simulator with
# Go's block coverage over the hermes package, runs the given checks (default: all, quick) with it and prints, per source
# file of /repo/hermes, the statement blocks that NO workload executed. A block that no run reaches is a place where a
# change cannot be observed by any monitor, whatever the oracle: the list is what the generators are widened from.
# Everything is written under /tmp/verifcov.* and removed again; evidence / replays of the real checks are not touched.
set -u
cd "$(dirname "$0")"
export VERIF_DIR="$PWD"
. ./env.sh
TIER="${1:-quick}"; shift || true
PROPS="$*"
[ -n "$PROPS" ] || PROPS=$(python3 -c "import json;print(' '.join(c['property_id'] for c in json.load(open('MANIFEST.json'))['checks']))")
W=$(mktemp -d /tmp/verifcov.XXXXXX)
KEEP="${VERIF_COV_OUT:-$PWD/.build/coverage}"
mkdir -p "$W/build" "$W/cov" "$W/ev" "$W/rep" "$KEEP"
trap 'rm -rf "$W"' EXIT
PKG=github.com/zalf-rpm/Hermes2Go/hermes
( cd harness && go build -cover -covermode=atomic -coverpkg=./...,$PKG -tags verif -o "$W/build/vmon" . ) || exit 2
( cd harness && go build -cover -covermode=atomic -coverpkg=./...,$PKG -race -tags verif -o "$W/build/vmon_race" . ) || exit 2
( cd /repo/src/hermes2go && env -u GOFLAGS GOWORK= go build -cover -covermode=atomic -coverpkg=./...,$PKG -tags verif -race -o "$W/build/hermes2go_race" . ) || exit 2
( cd /repo/src/hermes2go && env -u GOFLAGS GOWORK= go build -cover -covermode=atomic -coverpkg=./...,$PKG -tags verif -o "$W/build/hermes2go" . ) || exit 2
( cd /repo/src/calcHermesBatch && env -u GOFLAGS GOWORK= go build -cover -covermode=atomic -o "$W/build/calcHermesBatch" . ) || exit 2
( cd /repo/src/cropfileconverter && env -u GOFLAGS GOWORK= go build -cover -covermode=atomic -coverpkg=./...,$PKG -o "$W/build/cropfileconverter" . ) || exit 2
export VERIF_BUILD="$W/build" VERIF_EVIDENCE_DIR="$W/ev" VERIF_REPLAY_DIR="$W/rep"
for p in $PROPS; do
  mkdir -p "$W/cov/$p"
  export VERIF_SCRATCH=$(mktemp -d "$W/scratch.XXXXXX")
  GOCOVERDIR="$W/cov/$p" "$W/build/vmon" check $p $TIER 2>&1 | tail -1
  rm -rf "$VERIF_SCRATCH"
  go tool covdata textfmt -i="$W/cov/$p" -o "$KEEP/$p.txt" 2>"$KEEP/$p.err" || head -3 "$KEEP/$p.err"
  rm -rf "$W/cov/$p"
done
python3 - "$KEEP" $PROPS <<'PY'
import sys,collections,os,re
keep=sys.argv[1]; props=sys.argv[2:]
cov=collections.defaultdict(lambda: collections.defaultdict(int))   # block -> prop -> count
for p in props:
    fn=os.path.join(keep,p+'.txt')
    if not os.path.exists(fn): continue
    for l in open(fn):
        if l.startswith('mode:'): continue
        blk,n,c=l.rsplit(' ',2)
        if '/Hermes2Go/hermes/' not in blk and '/Hermes2Go/hermes2go' not in blk: continue
        cov[blk][p]+=int(c)
byfile=collections.defaultdict(list)
for blk,d in cov.items():
    f,rng=blk.split(':')
    byfile[os.path.basename(f)].append((rng,sum(d.values()),d))
tot=unc=0
out=open(os.path.join(keep,'uncovered.txt'),'w')
for f in sorted(byfile):
    bl=byfile[f]; u=[b for b in bl if b[1]==0]
    tot+=len(bl); unc+=len(u)
    print(f"{f}: blocks {len(bl)} never executed {len(u)}")
    def key(r):
        a=re.split('[.,]',r[0]); return (int(a[0]),int(a[1]))
    for b in sorted(u,key=key): out.write(f"{f}:{b[0]}\n")
print(f"total blocks {tot}, never executed by any of {' '.join(props)}: {unc}  (list: {keep}/uncovered.txt)")
PY
