package hermes

// Demonstration for property C11 ("Runs are isolated, always terminate, and failures are reported per run").
//
// TestC11AutoHarvestForcedAfterNextSowing (primary):
//   shipped project MUN, automatic harvest switched on (AutoHarvest=1, a documented switch), sowing dates from the
//   rotation file. For plot 00006 the maize of 2016 is not ripe in time, so it is harvested on the latest harvest date
//   of automan.txt (10.10.2016), which is after the sowing date of the following winter barley (16.09.2016).
//   The run neither succeeds nor reports an error on the result channel: it panics (index out of range [-1] in PhytoOut).
//   In hermes2go the runs are goroutines of one process, so the panic ends the whole batch: no other line completes
//   and no error summary is written.
//
// TestC11StartYearAfterEndYear (second trigger, error class "start year not matching the first harvest"):
//   with a multi-year weather file (WeatherFileFormat 1 or 2) a start year after the end year panics while the weather
//   buffer is allocated, before the run error "start year ... does not match ..." can be reported.
//
// Both tests dispatch the lines the way src/hermes2go/hermes_main.go does (one session, one goroutine per line, result and
// log channel). The only difference: every goroutine has a recover(), so that the test can report the violation
// instead of being killed by it.

import (
	"fmt"
	"io"
	"os"
	"path/filepath"
	"sort"
	"strings"
	"testing"
	"time"
)

func c11CopyTree(t *testing.T, src, dst string) {
	t.Helper()
	err := filepath.Walk(src, func(p string, info os.FileInfo, err error) error {
		if err != nil {
			return err
		}
		rel, err := filepath.Rel(src, p)
		if err != nil {
			return err
		}
		target := filepath.Join(dst, rel)
		if info.IsDir() {
			if strings.HasPrefix(info.Name(), "RESULT") {
				return filepath.SkipDir
			}
			return os.MkdirAll(target, 0o755)
		}
		in, err := os.Open(p)
		if err != nil {
			return err
		}
		defer in.Close()
		out, err := os.Create(target)
		if err != nil {
			return err
		}
		defer out.Close()
		_, err = io.Copy(out, in)
		return err
	})
	if err != nil {
		t.Fatalf("copy %s: %v", src, err)
	}
}

// c11Workspace builds a working directory in t.TempDir() from the shipped examples
func c11Workspace(t *testing.T, project string, weatherFolder string) string {
	t.Helper()
	examples, err := filepath.Abs(filepath.Join("..", "examples"))
	if err != nil {
		t.Fatal(err)
	}
	if _, err := os.Stat(filepath.Join(examples, "project", project)); err != nil {
		t.Fatalf("shipped examples not found: %v", err)
	}
	root := t.TempDir()
	c11CopyTree(t, filepath.Join(examples, "parameter"), filepath.Join(root, "parameter"))
	c11CopyTree(t, filepath.Join(examples, "project", project), filepath.Join(root, "project", project))
	c11CopyTree(t, filepath.Join(examples, "weather", weatherFolder), filepath.Join(root, "weather", weatherFolder))
	return root
}

type c11Outcome struct {
	result *RunReturn  // what the run sent on the result channel (nil if nothing)
	panic  interface{} // what the run panicked with (nil if it did not)
}

// c11Dispatch runs the batch lines in one session like doConcurrentBatchRun of hermes2go
func c11Dispatch(t *testing.T, root string, lines []string, concurrent int) map[string]c11Outcome {
	t.Helper()
	session := NewHermesSession()
	defer session.Close()
	logOutputChan := make(chan string)
	resultChannel := make(chan *RunReturn)
	type crash struct {
		logID string
		val   interface{}
	}
	crashChannel := make(chan crash)
	outcomes := make(map[string]c11Outcome)
	timeout := time.After(100 * time.Second)
	active := 0
	collectOne := func() {
		for {
			select {
			case res := <-resultChannel:
				outcomes[res.LogID] = c11Outcome{result: res}
				active--
				return
			case c := <-crashChannel:
				outcomes[c.logID] = c11Outcome{panic: c.val}
				active--
				return
			case <-logOutputChan:
			case <-timeout:
				t.Fatalf("batch did not terminate within 100s (%d runs still active)", active)
			}
		}
	}
	for i, line := range lines {
		for active == concurrent {
			collectOne()
		}
		active++
		logID := fmt.Sprintf("[%v]", i)
		args := strings.Fields(line)
		go func() {
			// hermes2go has no recover: there the panic of one run ends the process and with it all other runs
			defer func() {
				if r := recover(); r != nil {
					crashChannel <- crash{logID, r}
				}
			}()
			session.Run(root, args, logID, resultChannel, logOutputChan)
		}()
	}
	for active > 0 {
		collectOne()
	}
	return outcomes
}

func c11ReadResults(t *testing.T, dir string) map[string]string {
	t.Helper()
	files := make(map[string]string)
	entries, err := os.ReadDir(dir)
	if err != nil {
		t.Fatalf("result folder %s: %v", dir, err)
	}
	for _, e := range entries {
		data, err := os.ReadFile(filepath.Join(dir, e.Name()))
		if err != nil {
			t.Fatal(err)
		}
		files[e.Name()] = string(data)
	}
	return files
}

// c11Check runs every good line alone (own session) and all lines together, then checks the clauses of C11
// underTest: lines without a reference run (their outcome, success or run error, is left open)
func c11Check(t *testing.T, root string, lines []string, mustFail map[int]bool, underTest map[int]bool) {
	t.Helper()
	withResult := func(line, folder string) string {
		return line + " resultfolder=" + filepath.Join(root, folder)
	}
	// reference: every line that is expected to succeed, alone
	for i, line := range lines {
		if mustFail[i] || underTest[i] {
			continue
		}
		out := c11Dispatch(t, root, []string{withResult(line, fmt.Sprintf("alone%d", i))}, 1)["[0]"]
		if out.panic != nil || out.result == nil || !out.result.Success {
			t.Fatalf("setup: line %d is meant to be a good line but fails alone: result %v panic %v", i, out.result, out.panic)
		}
	}
	// the batch
	batch := make([]string, len(lines))
	for i, line := range lines {
		batch[i] = withResult(line, "together")
	}
	outcomes := c11Dispatch(t, root, batch, 2)

	var summary []string
	for i := range lines {
		logID := fmt.Sprintf("[%v]", i)
		out := outcomes[logID]
		switch {
		case out.panic != nil:
			t.Errorf("line %s: the run PANICKED (%v) instead of ending with success or with a run error on the result channel; "+
				"in hermes2go this panic ends the process: no other line completes and no error summary is written", logID, out.panic)
		case out.result == nil:
			t.Errorf("line %s: no result record", logID)
		case !out.result.Success:
			summary = append(summary, out.result.String())
			if !mustFail[i] && !underTest[i] {
				t.Errorf("good line %s failed in the batch: %v", logID, out.result.Err)
			}
		default:
			if mustFail[i] {
				t.Errorf("line %s belongs to a reported-error class but ended with success", logID)
			}
		}
	}
	sort.Strings(summary)
	t.Logf("error summary: %v", summary)

	// good lines: same result files as alone
	together := c11ReadResults(t, filepath.Join(root, "together"))
	for i := range lines {
		if mustFail[i] || underTest[i] || outcomes[fmt.Sprintf("[%v]", i)].result == nil {
			continue
		}
		alone := c11ReadResults(t, filepath.Join(root, fmt.Sprintf("alone%d", i)))
		for name, content := range alone {
			if got, ok := together[name]; !ok {
				t.Errorf("line %d: result file %s missing in the batch run", i, name)
			} else if got != content {
				t.Errorf("line %d: result file %s differs between the run alone and the run in the batch", i, name)
			}
		}
	}
}

func TestC11AutoHarvestForcedAfterNextSowing(t *testing.T) {
	root := c11Workspace(t, "MUN", "MUN")
	// the line of examples/old_format_mun_batch.txt (soil id from the polygon file), three plots, automatic harvest on
	line := "project=MUN WeatherFolder=MUN fcode=NEU plotNr=%s Altitude=55 Latitude=54.00 poligonID=MUN parameter=./parameter StartYear=2009 EndDate=31052019 AutoHarvest=1"
	lines := []string{
		fmt.Sprintf(line, "00002"),
		fmt.Sprintf(line, "00006"), // silage maize 2016 harvested on the latest date 10.10.2016, winter barley sown 16.09.2016
		fmt.Sprintf(line, "00005"),
	}
	// no line has an input error: every line has to end with a result record (success, or a run error of its own)
	c11Check(t, root, lines, map[int]bool{}, map[int]bool{1: true})
}

func TestC11StartYearAfterEndYear(t *testing.T) {
	root := c11Workspace(t, "ex1", "historical")
	// lines of examples/all_muencheberg_batch.txt, shortened to three years
	line := "project=ex1 WeatherFolder=historical soilId=075 fcode=109_120 plotNr=%s Altitude=73 Latitude=52.6732 poligonID=%s EndDate=12311982"
	lines := []string{
		fmt.Sprintf(line, "10001", "29872"),
		fmt.Sprintf(line, "10001", "late81") + " StartYear=1981", // start year does not match the first harvest (1980): reported as run error
		fmt.Sprintf(line, "10002", "typo80") + " StartYear=2080", // the same error class (typo for 1980), start year after the end year
		fmt.Sprintf(line, "10002", "29872"),
	}
	c11Check(t, root, lines, map[int]bool{1: true, 2: true}, map[int]bool{})
}
