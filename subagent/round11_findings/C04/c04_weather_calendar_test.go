package hermes

// Demonstration for property C04 ("every simulated day is driven by the weather record of exactly that date").
//
//   TestC04WeatherLockstepAcross2100  - MAIN finding: the simulation calendar invents a 29 February 2100;
//                                       from that day on every simulated date consumes the weather record of the NEXT date.
//   TestC04PrecoLeapYearMonth         - second, independent finding: in leap years the monthly precipitation
//                                       correction of the FOLLOWING month is applied on 29 Feb, 31 Mar, 30 Apr, ... 30 Nov.
//
// Both tests build a project in t.TempDir() from examples/project/ex1 + examples/parameter and a synthetic,
// gap-free, correctly dated weather series whose values encode the date of the record.
// copy to hermes/ and run:  go test -vet=off -count=1 -run 'TestC04' .

import (
	"fmt"
	"math"
	"os"
	"path/filepath"
	"strconv"
	"strings"
	"testing"
	"time"
)

func c04CopyDir(t *testing.T, src, dst string) {
	t.Helper()
	err := filepath.Walk(src, func(p string, info os.FileInfo, err error) error {
		if err != nil {
			return err
		}
		rel, _ := filepath.Rel(src, p)
		target := filepath.Join(dst, rel)
		if info.IsDir() {
			return os.MkdirAll(target, 0o755)
		}
		data, err := os.ReadFile(p)
		if err != nil {
			return err
		}
		return os.WriteFile(target, data, 0o644)
	})
	if err != nil {
		t.Fatal(err)
	}
}

type c04Rec struct{ tmin, tavg, tmax, precip, globrad, wind, rh float64 }

// c04RecFor: the weather record of a date; every value identifies the date (all with <= 2 decimals)
func c04RecFor(d time.Time) c04Rec {
	doy := float64(d.YearDay())
	y := float64(d.Year() % 10)
	return c04Rec{
		tmin:    5 + doy*0.01,
		tavg:    10 + doy*0.01 + y,
		tmax:    20 + doy*0.01 + y,
		precip:  float64(d.Day())/10 + float64(d.Month()), // mm: <month>.<day>
		globrad: 10,
		wind:    2,
		rh:      80,
	}
}

// c04Setup creates <root>/parameter, <root>/project/ex1 (config edited, own rotation) and the weather files
// <root>/weather/w/wx.csv (layout 1) and wx.w6d (layout 2) covering from..to without gaps
func c04Setup(t *testing.T, cfgEdits map[string]string, crop string, from, to time.Time) string {
	t.Helper()
	root := t.TempDir()
	ex, err := filepath.Abs(filepath.Join("..", "examples"))
	if err != nil {
		t.Fatal(err)
	}
	c04CopyDir(t, filepath.Join(ex, "parameter"), filepath.Join(root, "parameter"))
	c04CopyDir(t, filepath.Join(ex, "project", "ex1"), filepath.Join(root, "project", "ex1"))
	cfgFile := filepath.Join(root, "project", "ex1", "config.yml")
	cfgb, err := os.ReadFile(cfgFile)
	if err != nil {
		t.Fatal(err)
	}
	lines := strings.Split(string(cfgb), "\n")
	for k, v := range cfgEdits {
		found := false
		for i, l := range lines {
			if strings.HasPrefix(l, k+":") {
				lines[i] = k + ": " + v
				found = true
			}
		}
		if !found {
			t.Fatalf("config key %s not found", k)
		}
	}
	if err := os.WriteFile(cfgFile, []byte(strings.Join(lines, "\n")), 0o644); err != nil {
		t.Fatal(err)
	}
	if err := os.WriteFile(filepath.Join(root, "project", "ex1", "crop_ex1.csv"), []byte(crop), 0o644); err != nil {
		t.Fatal(err)
	}
	wdir := filepath.Join(root, "weather", "w")
	os.MkdirAll(wdir, 0o755)
	var csv, cz strings.Builder
	csv.WriteString("iso-date,tmin,tavg,tmax,precip,globrad,wind,relhumid\n-,C,C,C,mm,MJ m-2,m s-1,%\n")
	cz.WriteString("@YYYYJJJ   TMIN    TMAX     RAD    PREC    WIND      RH  CO2\n")
	for d := from; !d.After(to); d = d.AddDate(0, 0, 1) {
		r := c04RecFor(d)
		fmt.Fprintf(&csv, "%s,%.2f,%.2f,%.2f,%.2f,%.2f,%.2f,%.2f\n", d.Format("2006-01-02"), r.tmin, r.tavg, r.tmax, r.precip, r.globrad, r.wind, r.rh)
		fmt.Fprintf(&cz, " %04d%03d %6.2f %6.2f %6.2f %6.2f %6.2f %6.2f 350\n", d.Year(), d.YearDay(), r.tmin, r.tmax, r.globrad, r.precip, r.wind, r.rh)
	}
	os.WriteFile(filepath.Join(wdir, "wx.csv"), []byte(csv.String()), 0o644)
	os.WriteFile(filepath.Join(wdir, "wx.w6d"), []byte(cz.String()), 0o644)
	return root
}

// c04Run runs the simulation in-process and returns the daily output file
func c04Run(t *testing.T, root string) string {
	t.Helper()
	res := filepath.Join(root, "RES")
	args := []string{"project=ex1", "WeatherFolder=w", "soilId=001", "fcode=wx", "plotNr=10001", "poligonID=1", "resultfolder=" + res}
	session := NewHermesSession()
	out := make(chan *RunReturn, 1)
	logout := make(chan string, 100)
	done := make(chan bool)
	go func() {
		for range logout {
		}
		done <- true
	}()
	session.Run(root, args, "c04", out, logout)
	r := <-out
	close(logout)
	<-done
	session.Close()
	if r.Err != nil {
		t.Fatalf("run ended with error: %v", r.Err)
	}
	b, err := os.ReadFile(filepath.Join(res, "V110001.RES"))
	if err != nil {
		t.Fatal(err)
	}
	return string(b)
}

type c04Day struct {
	date                                     string
	parsed                                   time.Time
	validDate                                bool
	tavg, tmin, tmax, rh, par, wind, precipC float64
}

// c04Days extracts output date + echo of the weather variables (last columns of the daily output of ex1:
// TEMPdaily TMINdaily TMAXdaily RHdaily RADdaily WINDdaily REGENdaily EffIRRIG)
func c04Days(t *testing.T, outp string) []c04Day {
	t.Helper()
	var days []c04Day
	for _, l := range strings.Split(outp, "\n") {
		if len(l) < 11 || l[2] != '.' || l[5] != '.' {
			continue
		}
		f := strings.Fields(l)
		if len(f) < 9 {
			continue
		}
		v := make([]float64, 8)
		for i, s := range f[len(f)-8:] {
			x, err := strconv.ParseFloat(s, 64)
			if err != nil {
				t.Fatalf("cannot parse output line %q", l)
			}
			v[i] = x
		}
		d := c04Day{date: l[:10], tavg: v[0], tmin: v[1], tmax: v[2], rh: v[3], par: v[4], wind: v[5], precipC: v[6]}
		p, err := time.Parse("01.02.2006", d.date) // Dateformat DateENlong, separator '.'
		d.parsed, d.validDate = p, err == nil
		days = append(days, d)
	}
	return days
}

func c04Near(a, b float64) bool { return math.Abs(a-b) < 0.006 }

// MAIN finding
func TestC04WeatherLockstepAcross2100(t *testing.T) {
	// maize every year; the harvest of the first line (1 Oct 2099) is the start of the simulation
	crop := "Field_ID,crp,sowing,harvst,Rex,yld,autorg,variety,comment\n" +
		"SOYSM1,SM ,05152099,10012099,080,050,0,,initial\n" +
		"SOYSM1,SM ,05152100,09302100,000,000,0,,\n" +
		"SOYSM1,SM ,05152101,09302101,000,000,0,,\n"
	from := time.Date(2099, 1, 1, 0, 0, 0, 0, time.UTC)
	to := time.Date(2101, 12, 31, 0, 0, 0, 0, time.UTC)
	for _, layout := range []int{1, 2} {
		t.Run(fmt.Sprintf("WeatherFileFormat%d", layout), func(t *testing.T) {
			edits := map[string]string{
				"StartYear":         "2099",
				"EndDate":           "\"12302101\"", // 30 Dec 2101 (mmddyyyy), inside the weather series
				"AnnualOutputDate":  "\"1031\"",
				"AutoIrrigation":    "0",
				"WeatherNoneValue":  "-99",
				"WeatherFileFormat": strconv.Itoa(layout),
			}
			if layout == 2 {
				edits["WeatherFile"] = "'%s.w6d'"
				edits["WeatherNumHeader"] = "1"
			}
			root := c04Setup(t, edits, crop, from, to)
			days := c04Days(t, c04Run(t, root))
			if len(days) < 800 {
				t.Fatalf("expected > 800 simulated days, got %d", len(days))
			}
			bad := 0
			for _, d := range days {
				if !d.validDate {
					bad++
					t.Errorf("simulated day %s is not a calendar date (weather consumed: tmin %.2f precip %.2f cm)", d.date, d.tmin, d.precipC)
					continue
				}
				r := c04RecFor(d.parsed)
				tavg := r.tavg
				if layout == 2 {
					tavg = (r.tmin + r.tmax) / 2
				}
				if !(c04Near(d.tavg, tavg) && c04Near(d.tmin, r.tmin) && c04Near(d.tmax, r.tmax) && c04Near(d.precipC, r.precip/10) && c04Near(d.par, r.globrad/2)) {
					bad++
					if bad <= 6 {
						// which record was consumed instead? tmin encodes the day of year of the record
						t.Errorf("simulated day %s (day of year %d): expected its own record (tmin %.2f tavg %.2f precip %.2f cm) but consumed tmin %.2f tavg %.2f precip %.2f cm = the record of day of year %.0f",
							d.date, d.parsed.YearDay(), r.tmin, tavg, r.precip/10, d.tmin, d.tavg, d.precipC, math.Round((d.tmin-5)*100))
					}
				}
			}
			if bad > 0 {
				t.Errorf("%d of %d simulated days were not driven by the weather record of their own date", bad, len(days))
			}
		})
	}
}

// second finding (independent of the first)
func TestC04PrecoLeapYearMonth(t *testing.T) {
	crop := "Field_ID,crp,sowing,harvst,Rex,yld,autorg,variety,comment\n" +
		"SOYSM1,SM ,05151983,01011984,080,050,0,,initial\n" +
		"SOYSM1,SM ,05151984,09301984,000,000,0,,\n" +
		"SOYSM1,SM ,05151985,09301985,000,000,0,,\n"
	from := time.Date(1984, 1, 1, 0, 0, 0, 0, time.UTC)
	to := time.Date(1985, 12, 31, 0, 0, 0, 0, time.UTC)
	edits := map[string]string{
		"StartYear":               "1984",
		"EndDate":                 "\"12301985\"",
		"AnnualOutputDate":        "\"1031\"",
		"AutoIrrigation":          "0",
		"WeatherNoneValue":        "-99",
		"CorrectionPrecipitation": "1",
	}
	root := c04Setup(t, edits, crop, from, to)
	// monthly correction factors 1..12 (same layout as examples/weather/MUN/preco.txt)
	preco := "Mo Corr\n 1 1.00\n 2 2.00\n 3 3.00\n 4 4.00\n 5 5.00\n 6 6.00\n 7 7.00\n 8 8.00\n 9 9.00\n10 10.0\n11 11.0\n12 12.0\n"
	os.WriteFile(filepath.Join(root, "weather", "w", "preco.txt"), []byte(preco), 0o644)
	days := c04Days(t, c04Run(t, root))
	if len(days) < 700 {
		t.Fatalf("expected > 700 simulated days, got %d", len(days))
	}
	bad := 0
	for _, d := range days {
		if !d.validDate {
			t.Fatalf("bad date %s", d.date)
		}
		r := c04RecFor(d.parsed)
		want := r.precip / 10 * float64(d.parsed.Month())
		if !c04Near(d.precipC, want) {
			bad++
			t.Errorf("%s: precipitation %.1f mm, correction factor of month %d is %d -> expected %.2f cm, model used %.2f cm (factor %.0f)",
				d.date, r.precip, d.parsed.Month(), d.parsed.Month(), want, d.precipC, d.precipC/(r.precip/10))
		}
	}
	if bad > 0 {
		t.Errorf("%d of %d days got the precipitation correction of another month", bad, len(days))
	}
}
