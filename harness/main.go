package main

import (
	"encoding/json"
	"fmt"
	"os"
	"path/filepath"
	"strconv"
	"strings"
)

// vmon: runtime-monitoring harness for the Hermes2Go properties C01..C20.
//
//   vmon check <prop> <quick|thorough>         run a check (seed from VERIF_SEED)
//   vmon replay <dir>                          re-run the case stored in a replay directory
//   vmon worker <prop> <tier> <seed> <i,j,..> <out>   (internal)
//   vmon case <prop> <tier> <seed> <index> [keepdir]  run one case and print its result

func usage() {
	fmt.Fprintln(os.Stderr, "usage: vmon check <prop> <quick|thorough> | replay <dir> | case <prop> <tier> <seed> <idx> [dir]")
	os.Exit(2)
}

func seedFromEnv() uint64 {
	if v := os.Getenv("VERIF_SEED"); v != "" {
		if s, err := strconv.ParseUint(v, 10, 64); err == nil {
			return s
		}
		if s, err := strconv.ParseInt(v, 10, 64); err == nil {
			return uint64(s)
		}
	}
	return 20260929
}

func main() {
	if len(os.Args) < 2 {
		usage()
	}
	scratchBase = os.Getenv("VERIF_SCRATCH")
	if scratchBase == "" {
		scratchBase = os.TempDir()
	}
	if d := os.Getenv("VERIF_DIR"); d != "" {
		verifDir = d
	}
	if err := loadTables(); err != nil {
		fmt.Println("INCONCLUSIVE: cannot read parameter tables:", err)
		os.Exit(2)
	}
	switch os.Args[1] {
	case "check":
		if len(os.Args) < 4 {
			usage()
		}
		prop, tier := os.Args[2], os.Args[3]
		if t := os.Getenv("VERIF_TIER"); t == "quick" || t == "thorough" {
			tier = t
		}
		os.Exit(runCheck(prop, tier, seedFromEnv()))
	case "worker":
		if len(os.Args) < 7 {
			usage()
		}
		seed, _ := strconv.ParseUint(os.Args[4], 10, 64)
		var idx []int
		for _, s := range strings.Split(os.Args[5], ",") {
			if v, err := strconv.Atoi(s); err == nil {
				idx = append(idx, v)
			}
		}
		workerMain(os.Args[2], os.Args[3], seed, idx, os.Args[6])
	case "poolhist":
		if len(os.Args) < 5 {
			usage()
		}
		seed, _ := strconv.ParseUint(os.Args[2], 10, 64)
		poolHistMain(seed, os.Args[3], os.Args[4])
	case "fnworker":
		if len(os.Args) < 8 {
			usage()
		}
		seed, _ := strconv.ParseUint(os.Args[4], 10, 64)
		shard, _ := strconv.Atoi(os.Args[5])
		nshards, _ := strconv.Atoi(os.Args[6])
		fnWorkerMain(os.Args[2], os.Args[3], seed, shard, nshards, os.Args[7])
	case "case":
		if len(os.Args) < 6 {
			usage()
		}
		seed, _ := strconv.ParseUint(os.Args[4], 10, 64)
		idx, _ := strconv.Atoi(os.Args[5])
		keep := ""
		if len(os.Args) > 6 {
			keep = os.Args[6]
		}
		res := runCaseByIndex(os.Args[2], os.Args[3], seed, idx, keep)
		b, _ := json.MarshalIndent(res, "", " ")
		fmt.Println(string(b))
	case "xcase":
		// xcase <genprop> <monprop,monprop..> <seed> <idx> [keepdir]: scenario of one property under the monitors of others
		if len(os.Args) < 6 {
			usage()
		}
		seed, _ := strconv.ParseUint(os.Args[4], 10, 64)
		idx, _ := strconv.Atoi(os.Args[5])
		keep := ""
		if len(os.Args) > 6 {
			keep = os.Args[6]
		}
		sc := GenScenario(os.Args[2], seed, idx)
		var ms []Monitor
		for _, mp := range strings.Split(os.Args[3], ",") {
			if sp, ok := simProps[mp]; ok {
				ms = append(ms, sp.monitors()...)
			}
		}
		res := runScenario(sc, ms, keep)
		res.Sample = scenarioSample(sc)
		b, _ := json.MarshalIndent(res, "", " ")
		fmt.Println(string(b))
	case "replay":
		if len(os.Args) < 3 {
			usage()
		}
		os.Exit(replay(os.Args[2]))
	default:
		usage()
	}
}

func replay(dir string) int {
	b, err := os.ReadFile(filepath.Join(dir, "case.json"))
	if err != nil {
		fmt.Println("INCONCLUSIVE: cannot read", dir, err)
		return 2
	}
	var meta struct {
		Prop  string `json:"prop"`
		Tier  string `json:"tier"`
		Seed  uint64 `json:"seed"`
		Index int    `json:"index"`
	}
	if json.Unmarshal(b, &meta) != nil {
		return 2
	}
	if rp, ok := replayers[meta.Prop]; ok {
		return rp(dir, b)
	}
	if meta.Index >= 1000000 {
		if rc := replayFnShard(meta.Prop, meta.Tier, meta.Seed, meta.Index, dir); rc >= 0 {
			return rc
		}
	}
	res := runCaseByIndex(meta.Prop, meta.Tier, meta.Seed, meta.Index, "")
	out, _ := json.MarshalIndent(res, "", " ")
	fmt.Println(string(out))
	findings := loadFindings()
	exit := 0
	for _, v := range res.Violations {
		if f := matchFinding(findings, v.Prop, v.Sig); f != nil {
			fmt.Printf("KNOWN-FINDING: property=%s %s signature=%s %s\n", v.Prop, f.ID, v.Sig, v.Msg)
		} else {
			fmt.Printf("VIOLATION property=%s replay=%s\n", v.Prop, dir)
			exit = 1
		}
	}
	return exit
}

// replayers for checks that are not case-index based
var replayers = map[string]func(dir string, meta []byte) int{}

// ---------------------------------------------------------------------------------
// registry
// ---------------------------------------------------------------------------------

type simProp struct {
	spec     checkSpec
	monitors func() []Monitor
}

var simProps = map[string]simProp{
	"C01": {checkSpec{Prop: "C01", Level: "exploration", NQuick: 2000, NThorough: 40000,
		Rule:   "cases = generated projects (seeded list: soils 1-20 layers, stones, drains, groundwater, 5 ET methods, irrigation, extreme rain, state injection) run through the real day loop; the water-balance oracle is evaluated on every sub-step and day; a case is non-trivial if it ran >30 days and had at least one multi-sub-step day; cases are distinct by construction (distinct generator index)",
		Floors: []string{"days", "substeps_2", "substeps_3_5", "substeps_6_20", "days_infiltration", "days_evaporation", "days_drain_active", "days_upward_bottom_flux"}},
		func() []Monitor { return []Monitor{&monC01{}} }},
	"C02": {checkSpec{Prop: "C02", Level: "exploration", NQuick: 2000, NThorough: 40000,
		Rule:   "cases = generated projects (>=2 layers, leaching depth = profile bottom, fertiliser/irrigation-N/tillage schedules, drains with shallow groundwater, deposition 0-60) run through the real day loop; the N-balance oracle incl. clamp accounting is evaluated on every N sub-step and day; on 8 % of the days the real transport routine is also run on a copy of the live state whose top-soil N was mixed as a tillage does it and whose crop demand exceeds the content of some layers (uptake limit engaged) and the same sub-step balance is checked; 12 % of the cases use automatic management; non-trivial = >30 days and a multi-sub-step or upward-flow day observed",
		Floors: []string{"days", "n_substeps", "conv_down_down", "conv_up_up", "conv_down_up", "conv_up_down", "days_drain_loss", "days_leaching", "days_uptake", "days_denitrification", "kernel_transport_calls", "kernel_uptake_limit_engaged"}},
		func() []Monitor { return []Monitor{&monC02{}} }},
	"C06": {checkSpec{Prop: "C06", Level: "exploration", NQuick: 2000, NThorough: 40000,
		Rule:   "cases = generated projects (all groundwater regimes, droughts, extreme rain, injected nearly dry / nearly full profiles); bounds and finiteness of every float of the run state are checked each day, result files scanned for NaN/Inf; non-trivial = >30 days and a layer at the dryness limit or at field capacity observed",
		Floors: []string{"days", "layerdays_at_dryness_limit", "layerdays_at_field_capacity", "layerdays_below_groundwater", "days_capillary_increment"}},
		func() []Monitor { return []Monitor{&monC06{}} }},
	"C07": {checkSpec{Prop: "C07", Level: "exploration", NQuick: 2000, NThorough: 40000,
		Rule:   "cases = generated projects biased to legumes, heavy rain (many sub-steps), tillage 5-60 cm, all fertiliser rows; pool/counter bookkeeping checked around every call of the N routine, once-per-day crediting on every sub-step, plus kernel calls of the real mineralisation routine on captured states with injected temperature/moisture; non-trivial = >30 days with multi-sub-step, tillage or fertiliser day",
		Floors: []string{"days", "tillage_days", "fertiliser_days", "harvest_days", "kernel_mineralisation_calls", "kernel_frozen_calls"}},
		func() []Monitor { return []Monitor{&monC07{}} }},
	"C08": {checkSpec{Prop: "C08", Level: "exploration", NQuick: 2000, NThorough: 40000,
		Rule:   "cases = generated projects over the five ET methods, latitudes -70..80, zero radiation with sunshine hours, frost, all moisture states (injection); ET ordering, caps, root-zone restriction checked every day; non-trivial = >30 days with a transpiring crop",
		Floors: []string{"days", "days_cropped", "days_bare", "days_transpiration", "days_water_stress", "days_et_method_1", "days_et_method_2", "days_et_method_3", "days_et_method_4", "days_et_method_5"}},
		func() []Monitor { return []Monitor{&monC08{}} }},
	"C09": {checkSpec{Prop: "C09", Level: "exploration", NQuick: 1950, NThorough: 39000,
		Rule:   "cases = generated rotations over every shipped annual main-crop parameter set (classic and YAML, varieties) x soils x weather x CO2 methods; crop state checked every day a crop grows, stage order at every harvest, crop result file cross-checked; non-trivial = >30 crop days",
		Floors: []string{"cropdays", "crop_cycles_completed", "cropdays_water_stress", "cropdays_n_stress"}},
		func() []Monitor { return []Monitor{&monC09{}} }},
	"C15": {checkSpec{Prop: "C15", Level: "exploration", NQuick: 2400, NThorough: 40000,
		Rule:   "cases = short runs over textures x density classes x C_org x stones x explicit values x PTF 1-4 x groundwater histories; parameter ordering checked after input and twice a day, parameter vector compared whenever a groundwater level recurs; non-trivial = ran >2 days",
		Floors: []string{"parameter_checks", "route_table", "route_explicit", "route_ptf", "groundwater_level_recurrences"}},
		func() []Monitor { return []Monitor{&monC15{}} }},
	"C20": {checkSpec{Prop: "C20", Level: "exploration", NQuick: 1200, NThorough: 24000},
		func() []Monitor { return []Monitor{&monC20{}} }},
	"C19": {checkSpec{Prop: "C19", Level: "exploration", NQuick: 2000, NThorough: 40000,
		Rule:   "cases = generated projects over density classes / measured densities, humus, moisture states (injection), cold and hot climates; every layer temperature checked against the running envelope of imposed boundary values each day and the diffusion number of the explicit scheme against 1/2; non-trivial = >30 days and >=2 layers",
		Floors: []string{"days", "days_frost_surface", "days_hot_surface", "days_radiation_surface_formula"}},
		func() []Monitor { return []Monitor{&monC19{}} }},
}

func runCheck(prop, tier string, seed uint64) int {
	if f, ok := otherChecks[prop]; ok {
		return f(tier, seed)
	}
	if sp, ok := simProps[prop]; ok {
		return runSimCheck(sp.spec, tier, seed)
	}
	fmt.Println("INCONCLUSIVE: no check registered for", prop)
	return 2
}

// otherChecks: checks with their own engines (filled in by their files' init functions)
var otherChecks = map[string]func(tier string, seed uint64) int{}

// caseRunners: per-property case execution for index-based checks with special generation
var caseRunners = map[string]func(tier string, seed uint64, idx int, keepDir string) *CaseResult{}

func runCaseByIndex(prop, tier string, seed uint64, idx int, keepDir string) *CaseResult {
	if f, ok := caseRunners[prop]; ok {
		return f(tier, seed, idx, keepDir)
	}
	sp, ok := simProps[prop]
	if !ok {
		return &CaseResult{Prop: prop, Seed: seed, Index: idx, Status: "skipped", Err: "unknown property"}
	}
	sc := finalScenario(prop, seed, idx)
	res := runScenario(sc, sp.monitors(), keepDir)
	res.Sample = scenarioSample(sc)
	if res.Cov == nil {
		res.Cov = map[string]int64{}
	}
	if sc.TillCollision {
		res.Cov["cases_postponed_tillage_meets_the_next_one"]++
	}
	if len(sc.OwnNFunction) > 0 {
		res.Cov["cases_first_crop_with_n_function_7_8_9"]++
	}
	if sc.DeadlineOvertakesSowing {
		res.Cov["cases_harvest_deadline_behind_next_fixed_sowing"]++
	}
	if sc.FileExt != "" {
		res.Cov["cases_with_fileExtension_argument"]++
	}
	if sc.GWId != "" {
		res.Cov["cases_with_gwId_argument"]++
	}
	if sc.Hot {
		res.Cov["cases_with_the_rare_choices_taken_together"]++
	}
	if sc.PermanentAfterAnnual {
		res.Cov["cases_permanent_crop_after_annual_crops"]++
	}
	return res
}

func materializeForReplay(prop, tier string, seed uint64, idx int, dir string) {
	if _, ok := simProps[prop]; ok {
		sc := finalScenario(prop, seed, idx)
		sc.Materialize(dir, filepath.Join(dir, "out"))
		b, _ := json.MarshalIndent(sc, "", " ")
		os.WriteFile(filepath.Join(dir, "scenario.json"), b, 0644)
	}
}
