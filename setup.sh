#!/bin/bash
# One-time setup after a fresh restore (offline): build the harness and the repository binaries
# with the verif hooks, which also warms the Go build cache.
set -eu
cd "$(dirname "$0")"
. ./env.sh
mkdir -p .build evidence replays
./build.sh all
echo "setup ok: $(ls .build | tr '\n' ' ')"
