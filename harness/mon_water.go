package main

import (
	"fmt"
	"math"

	"github.com/zalf-rpm/Hermes2Go/hermes"
)

func tolFor(terms ...float64) float64 {
	m := 0.0
	for _, t := range terms {
		if a := math.Abs(t); a > m {
			m = a
		}
	}
	return 1e-9 + 1e-11*m
}

func storage(wg *[21]float64, n int, dz float64) float64 {
	s := 0.0
	for z := 0; z < n; z++ {
		s += wg[z] * dz
	}
	return s
}

func subBucket(n int) string {
	switch {
	case n <= 1:
		return "substeps_1"
	case n == 2:
		return "substeps_2"
	case n <= 5:
		return "substeps_3_5"
	case n <= 20:
		return "substeps_6_20"
	case n <= 92:
		return "substeps_21_92"
	default:
		return "substeps_ge93"
	}
}

// measurementDay reports whether the model overwrites the state from the measurement file today
// (evaluated at day_begin, i.e. before the overwrite advances the cursor).
func measurementDay(g *hermes.GlobalVarsMain, zeit int) bool {
	if g.MZ-1 < 0 || g.MZ-1 >= len(g.MESS) {
		return false
	}
	return zeit == g.MESS[g.MZ-1]
}

// =====================================================================================
// C01: soil water mass balance
// =====================================================================================

type monC01 struct {
	first      bool
	begZeit    int
	sStart     float64
	wgStart    [21]float64
	wgPrevEnd  [21]float64
	havePrev   bool
	wgDayBegin [21]float64
	grwBegin   float64
	measToday  bool
	fluss0     float64
	eta        float64
	gwauf      float64
	tpEff      [21]float64
	sumTPeff   float64
	sumQN      float64
	sumQOut    float64
	sumDrain   float64
	sumWdt     float64
	nsub       int
	steps      float64
	wdt        float64
	sicker0    float64
	draisum0   float64
	sLastWater float64
	rain       float64
	drainDay   bool
	capDay     bool
	gwupDay    bool
	dryDay     bool
	multi      bool
	drainSeen  bool
}

func (m *monC01) Event(ev *hermes.VerifEvent, rc *RunCtx) {
	g := ev.G
	switch ev.Site {
	case "input_done":
		m.first = true
		m.begZeit = g.BEGINN
	case "day_begin":
		m.wgDayBegin = g.WG[1]
		if ev.Zeit == m.begZeit {
			m.wgDayBegin = g.WG[0]
		}
		m.grwBegin = g.GRW
		m.measToday = measurementDay(g, ev.Zeit)
		// nothing may change the water between yesterday's end-of-day state and today's begin
		if m.havePrev && !injectedDay(rc, ev.Zeit) {
			for z := 0; z < g.N; z++ {
				if m.wgDayBegin[z] != m.wgPrevEnd[z] {
					rc.Violate("C01", "water_changed_between_days", fmt.Sprintf("layer %d water content changed between day end (%.17g) and next day begin (%.17g)", z+1, m.wgPrevEnd[z], m.wgDayBegin[z]), ev.Zeit, z+1, nil)
					break
				}
			}
		}
	case "pre_evatra":
		src := &g.WG[1]
		if ev.Zeit == m.begZeit {
			src = &g.WG[0]
		}
		m.wgStart = *src
		m.sStart = storage(src, g.N, g.DZ.Num)
		// between day_begin and pre_evatra only a groundwater change or the measurement file may alter water
		gwChanged := g.GRW != m.grwBegin
		if !gwChanged && !m.measToday {
			for z := 0; z < g.N; z++ {
				if m.wgStart[z] != m.wgDayBegin[z] {
					rc.Violate("C01", "water_changed_before_et", fmt.Sprintf("layer %d water content changed before the water routine without groundwater change or measurement (%.17g -> %.17g)", z+1, m.wgDayBegin[z], m.wgStart[z]), ev.Zeit, z+1, nil)
					break
				}
			}
		}
		if gwChanged {
			rc.Cov("gw_change_days", 1)
			// the daily groundwater update may rewrite the water below the table, but only when the groundwater input gives
			// another level than the day before: on a plateau of the series (or a constant level) nothing may touch the water
			if ev.Zeit != m.begZeit && !gwInputChanges(rc.Sc, ev.Zeit) && !m.measToday {
				for z := 0; z < g.N; z++ {
					if m.wgStart[z] != m.wgDayBegin[z] {
						rc.Violate("C01", "water_changed_by_groundwater_update_on_constant_level", fmt.Sprintf("the groundwater input gives the same level as the day before, yet the level in use moved (%.17g -> %.17g) and layer %d water content was rewritten before the water routine (%.17g -> %.17g): water created / lost without any flux", m.grwBegin, g.GRW, z+1, m.wgDayBegin[z], m.wgStart[z]), ev.Zeit, z+1, nil)
						break
					}
				}
			}
		} else if rc.Sc.GWMode == 2 && !gwInputChanges(rc.Sc, ev.Zeit) {
			rc.Cov("days_on_a_plateau_of_the_groundwater_series", 1)
		}
		m.sumTPeff, m.sumQN, m.sumQOut, m.sumDrain, m.sumWdt, m.nsub = 0, 0, 0, 0, 0, 0
		m.sicker0 = g.SICKER + g.CAPSUM
		m.draisum0 = g.DRAISUM
		m.rain = g.REGEN[g.TAG.Index]
		m.drainDay, m.capDay, m.gwupDay, m.dryDay = false, false, false, false
	case "post_evatra":
		m.fluss0 = g.FLUSS0
		m.eta = g.ETA
		m.gwauf = ev.W.GWAUF
		// surface flux = rain (+irrigation, already added to today's rain) minus actual evaporation
		exp := m.rain - g.ETA
		if math.Abs(g.FLUSS0-exp) > tolFor(m.rain, g.ETA) {
			rc.Violate("C01", "surface_flux_mismatch", fmt.Sprintf("surface flux %.17g != rain+irrigation %.17g - actual evaporation %.17g", g.FLUSS0, m.rain, g.ETA), ev.Zeit, 0, map[string]float64{"fluss0": g.FLUSS0, "rain": m.rain, "eta": g.ETA})
		}
		if math.Abs(m.rain-(g.REGENdaily+g.EffectiveIRRIG)) > tolFor(m.rain) && !injectedDay(rc, ev.Zeit) {
			rc.Violate("C01", "rain_irrigation_mismatch", fmt.Sprintf("water offered to the surface %.17g != weather rain %.17g + irrigation %.17g", m.rain, g.REGENdaily, g.EffectiveIRRIG), ev.Zeit, 0, nil)
		}
	case "post_water":
		n := g.N
		dz := g.DZ.Num
		wdt := ev.Wdt
		m.wdt = wdt
		m.steps = ev.Steps
		if ev.Subd == 1 {
			m.tpEff = g.TP
		}
		sumTP := 0.0
		for z := 0; z < n; z++ {
			sumTP += g.TP[z]
		}
		dS := storage(&g.WG[1], n, dz) - storage(&g.WG[0], n, dz)
		rhs := g.FLUSS0*wdt - sumTP*wdt - g.Q1[n] - g.QDRAIN
		res := dS - rhs
		if math.Abs(res) > tolFor(dS, g.FLUSS0*wdt, sumTP*wdt, g.Q1[n], g.QDRAIN) || !finite(res) {
			rc.Violate("C01", "substep_balance", fmt.Sprintf("sub-step %d of %v: storage change %.17g != surface %.17g - uptake %.17g - bottom flux %.17g - drain %.17g (residual %.3g cm)", ev.Subd, ev.Steps, dS, g.FLUSS0*wdt, sumTP*wdt, g.Q1[n], g.QDRAIN, res),
				ev.Zeit, 0, map[string]float64{"residual": res, "wdt": wdt, "subd": float64(ev.Subd)})
		}
		m.sumTPeff += sumTP * wdt
		m.sumQN += g.Q1[n]
		m.sumQOut += g.Q1[g.OUTN]
		m.sumDrain += g.QDRAIN
		m.sumWdt += wdt
		m.nsub++
		m.sLastWater = storage(&g.WG[1], n, dz)
		if g.QDRAIN > 0 {
			m.drainDay = true
		}
		if g.Q1[n] < 0 {
			m.capDay = true
		}
		if ev.W.GWAUF > 0 {
			m.gwupDay = true
		}
		rc.Cov("substeps", 1)
	case "day_end":
		n := g.N
		dz := g.DZ.Num
		sEnd := storage(&g.WG[1], n, dz)
		if sEnd != m.sLastWater {
			rc.Violate("C01", "water_changed_after_water_routine", fmt.Sprintf("profile storage changed after the last water sub-step (%.17g -> %.17g)", m.sLastWater, sEnd), ev.Zeit, 0, nil)
		}
		// daily identity with the DAILY surface flux and uptake: exposes lost / duplicated sub-steps
		sumTPday := 0.0
		for z := 0; z < n; z++ {
			sumTPday += m.tpEff[z]
		}
		dS := sEnd - m.sStart
		rhs := m.fluss0 - sumTPday - m.sumQN - m.sumDrain
		res := dS - rhs
		trunc := math.Abs(float64(int(m.steps))*m.wdt-1) > 1e-9
		if math.Abs(m.sumWdt-1) > 1e-9 {
			rc.Violate("C01", sigTrunc(trunc, "substep_time_not_one_day"), fmt.Sprintf("%d sub-steps of length %.17g cover %.17g of the day (requested steps %.17g)", m.nsub, m.wdt, m.sumWdt, m.steps), ev.Zeit, 0,
				map[string]float64{"steps": m.steps, "wdt": m.wdt, "nsub": float64(m.nsub)})
		}
		if math.Abs(res) > tolFor(dS, m.fluss0, sumTPday, m.sumQN, m.sumDrain) || !finite(res) {
			rc.Violate("C01", sigTrunc(trunc, "day_balance"), fmt.Sprintf("day storage change %.17g != surface %.17g - uptake %.17g - bottom flux %.17g - drain %.17g (residual %.3g cm, %d sub-steps)", dS, m.fluss0, sumTPday, m.sumQN, m.sumDrain, res, m.nsub),
				ev.Zeit, 0, map[string]float64{"residual": res, "nsub": float64(m.nsub), "fluss0": m.fluss0})
		}
		// reported counters agree with the fluxes
		dSick := (g.SICKER + g.CAPSUM) - m.sicker0
		// the reported net flux through the lower boundary (percolation minus capillary / groundwater supply) is the flux the
		// water routine actually moved through that boundary. The model additionally books the root uptake from the layer that
		// holds the groundwater table as "supply from groundwater" although no water enters the profile for it (recorded
		// finding): a difference of exactly that amount carries its own signature, any other difference is reported as such
		expSick := 10 * m.sumQOut
		if math.Abs(dSick-expSick) > tolFor(dSick, expSick)*10 {
			sig := "percolation_counter_mismatch"
			if bookedToo := 10 * (m.sumQOut - m.gwauf*m.sumWdt); m.gwauf > 0 && math.Abs(dSick-bookedToo) <= tolFor(dSick, bookedToo)*10 {
				sig = "groundwater_uptake_booked_as_supply"
			}
			rc.Violate("C01", sig, fmt.Sprintf("reported percolation-minus-supply change %.17g mm != 10 x flux through the leaching depth %.17g cm (root uptake from the groundwater layer today: %.17g cm)", dSick, m.sumQOut, m.gwauf*m.sumWdt), ev.Zeit, 0, nil)
		}
		dDr := g.DRAISUM - m.draisum0
		if math.Abs(dDr-10*m.sumDrain) > tolFor(dDr)*10 {
			rc.Violate("C01", "drain_counter_mismatch", fmt.Sprintf("reported drain outflow change %.17g mm != 10*drain flux %.17g", dDr, m.sumDrain), ev.Zeit, 0, nil)
		}
		m.wgPrevEnd = g.WG[1]
		m.havePrev = true
		// coverage
		rc.Cov("days", 1)
		rc.Cov(subBucket(m.nsub), 1)
		rc.CovMax("max_substeps", int64(m.nsub))
		switch {
		case m.fluss0 > 0:
			rc.Cov("days_infiltration", 1)
		case m.fluss0 < 0:
			rc.Cov("days_evaporation", 1)
		default:
			rc.Cov("days_zero_flux", 1)
		}
		if m.drainDay {
			rc.Cov("days_drain_active", 1)
			m.drainSeen = true
		}
		if m.capDay {
			rc.Cov("days_upward_bottom_flux", 1)
		}
		if m.gwupDay {
			rc.Cov("days_gw_uptake", 1)
		}
		if sumTPday > 0 {
			rc.Cov("days_uptake", 1)
		}
		if m.sumQN > 0 {
			rc.Cov("days_percolation", 1)
		}
		if m.nsub > 1 {
			m.multi = true
		}
	}
}

func sigTrunc(trunc bool, other string) string {
	if trunc {
		return "substep_truncation"
	}
	return other
}

func (m *monC01) Finish(rc *RunCtx) {
	rc.Res.NonTrivial = rc.Res.Days > 30 && m.multi
}

// =====================================================================================
// C06: water content within physical bounds, state finite
// =====================================================================================

type monC06 struct {
	wgStart   [21]float64
	begZeit   int
	fin       *finiteScanner
	nfk       [21]float64
	haveNFK   bool
	lowSeen   bool
	highSeen  bool
	nanSeen   bool
	psInput   [21]float64
	havePS    bool
	kRng      *Rng
	lastGRW   float64
	gwSeen    bool
	gwChanges int
}

func (m *monC06) Event(ev *hermes.VerifEvent, rc *RunCtx) {
	g := ev.G
	switch ev.Site {
	case "input_done":
		m.begZeit = g.BEGINN
		m.fin = newFiniteScanner(ev)
		m.psInput = g.PORGES
		m.havePS = true
	case "pre_evatra":
		if ev.Zeit == m.begZeit {
			m.wgStart = g.WG[0]
		} else {
			m.wgStart = g.WG[1]
		}
		if m.gwSeen && g.GRW != m.lastGRW {
			m.gwChanges++
		}
		m.lastGRW, m.gwSeen = g.GRW, true
	case "post_evatra":
		m.nfk = ev.W.NFK
		m.haveNFK = true
		if m.kRng == nil {
			m.kRng = NewRng(mix(rc.Sc.Seed, uint64(rc.Sc.Index)+606))
		}
		if m.kRng.Bool(0.04) && ev.G == rc.liveG {
			m.kernelDay(ev, rc)
		}
	case "day_end":
		n := g.N
		const eps = 1e-12
		// today's capillary-rise increment and the layer that received it (as the water routine documents it)
		capLayer, capInc := -1, 0.0
		if m.haveNFK {
			caplay := 0
			for i := n; i >= 1; i-- {
				if caplay == 0 && m.nfk[i-1] < 0.7 {
					caplay = i
				}
			}
			if caplay > 0 {
				gwdist := g.GRW + 1 - float64(caplay)
				if gwdist < 21 {
					if gwdist < 0 {
						gwdist = 0
					}
					if gwdist > 0.9 {
						idx := int(math.Round(math.Max(gwdist, 1))) - 1
						if idx >= 0 && idx < len(g.CAPS) {
							capLayer, capInc = caplay-1, g.CAPS[idx]
						}
					}
				}
			}
		}
		for z := 0; z < n; z++ {
			w := g.WG[1][z]
			if !finite(w) {
				rc.Violate("C06", nanSig(g, "water_content_not_finite"), fmt.Sprintf("layer %d water content is %v", z+1, w), ev.Zeit, z+1, nil)
				m.nanSeen = true
				continue
			}
			// independent of the model's own (possibly corrupted) parameters: a volumetric water content is below 1, and the
			// pore volume of a layer is what the input module set up for it (a groundwater change moves field capacity, not pores)
			if w >= 1 {
				rc.Violate("C06", "water_content_above_one", fmt.Sprintf("layer %d volumetric water content %.17g is not below 1 (pore volume %.6g, field capacity %.6g)", z+1, w, g.PORGES[z], g.W[z]), ev.Zeit, z+1, nil)
			}
			if m.havePS && w > m.psInput[z]+0.055+eps && w > g.W[z]-1e-9 {
				rc.Violate("C06", "above_pore_volume_of_input", fmt.Sprintf("layer %d water content %.17g exceeds the pore volume %.6g the layer had after input (+ the largest capillary increment); today's pore volume %.6g, field capacity %.6g", z+1, w, m.psInput[z], g.PORGES[z], g.W[z]), ev.Zeit, z+1, nil)
			}
			lo := g.WMIN[z] / 3
			if m.wgStart[z] >= lo && w < lo-eps {
				rc.Violate("C06", "below_dryness_limit", fmt.Sprintf("layer %d water content %.17g below the dryness limit %.17g (one third of wilting point) although it started the day at %.17g", z+1, w, lo, m.wgStart[z]), ev.Zeit, z+1, nil)
			}
			hi := g.W[z]
			if z == capLayer {
				hi += capInc
			}
			if w > hi+eps {
				sig := "above_field_capacity"
				if g.W[z] > g.PORGES[z] {
					sig = "above_field_capacity_fc_gt_ps"
				}
				rc.Violate("C06", sig, fmt.Sprintf("layer %d water content %.17g above field capacity %.17g + capillary increment %.17g", z+1, w, g.W[z], hi-g.W[z]), ev.Zeit, z+1,
					map[string]float64{"wg": w, "w": g.W[z], "porges": g.PORGES[z], "grw": g.GRW, "caplayer": float64(capLayer + 1)})
			}
			// the field capacity of a reference run that re-evaluates the soil parameters from scratch every day (see
			// monForceFresh): independent of whatever the run under observation keeps from earlier groundwater levels
			if fr := rc.Sc.freshRef[ev.Zeit]; fr != nil && m.gwChanges > 0 {
				hiRef := fr.p.W[z]
				if z == capLayer {
					hiRef += capInc
				}
				if w > hiRef+eps {
					rc.Violate("C06", "above_field_capacity_of_forced_reevaluation", fmt.Sprintf("layer %d water content %.17g (start of day %.17g) lies above the field capacity %.17g (+ capillary increment %.6g) that a run re-evaluating the soil parameters every day uses for this day (groundwater at %.4g dm; field capacity in use %.6g)", z+1, w, m.wgStart[z], fr.p.W[z], hiRef-fr.p.W[z], g.GRW, g.W[z]), ev.Zeit, z+1, nil)
				}
				rc.Cov("layerdays_checked_against_forced_reevaluation", 1)
			}
			if w <= lo+1e-9 {
				m.lowSeen = true
				rc.Cov("layerdays_at_dryness_limit", 1)
			}
			if w >= g.W[z]-1e-9 {
				m.highSeen = true
				rc.Cov("layerdays_at_field_capacity", 1)
			}
			if float64(z+1) > g.GRW {
				rc.Cov("layerdays_below_groundwater", 1)
			}
		}
		if capLayer >= 0 && capInc > 0 {
			rc.Cov("days_capillary_increment", 1)
		}
		rc.Cov("days", 1)
		if m.fin != nil && !m.nanSeen {
			if name, val, ok := m.fin.scan(); !ok {
				rc.Violate("C06", nanSig(g, "state_not_finite"), fmt.Sprintf("state variable %s is %v", name, val), ev.Zeit, 0, nil)
				m.nanSeen = true
			}
		}
	}
}

// c06HostileSteps: sub-step counts n for which n*(1/n), 1/(1/n) or the running sum of 1/n miss 1 in floating point, next
// to ordinary ones
var c06HostileSteps = []int{1, 2, 3, 7, 10, 49, 93, 98, 99, 103, 105, 107, 117, 123, 161, 186, 187}

// kernelDay: the real water routine run for one whole day on a COPY of the live state (as the evapotranspiration routine
// left it) with a chosen number of sub-steps - a finer stepping than the day needs is always admissible - and, in half
// of the calls, with some layers filled to their pore volume, as a falling groundwater table leaves them. At the end of
// that day every layer must be within the bounds of the property.
func (m *monC06) kernelDay(ev *hermes.VerifEvent, rc *RunCtx) {
	g := *ev.G
	w := *ev.W
	r := m.kRng
	n := g.N
	steps := c06HostileSteps[r.Intn(len(c06HostileSteps))]
	raised := false
	if r.Bool(0.5) {
		for z := 0; z < n; z++ {
			if r.Bool(0.25) && g.PORGES[z] > g.W[z] {
				g.WG[0][z] = g.PORGES[z]
				raised = true
			}
		}
	}
	start := g.WG[0]
	wdt := 1 / float64(steps)
	for subd := 1; subd <= steps; subd++ {
		hermes.Water(wdt, subd, ev.Zeit, &g, &w)
	}
	const eps = 1e-12
	for z := 0; z < n; z++ {
		wz := g.WG[1][z]
		if !finite(wz) {
			rc.Violate("C06", nanSig(ev.G, "kernel_water_content_not_finite"), fmt.Sprintf("water routine with %d sub-steps: layer %d water content is %v", steps, z+1, wz), ev.Zeit, z+1, nil)
			return
		}
		if lo := g.WMIN[z] / 3; start[z] >= lo && wz < lo-eps {
			rc.Violate("C06", "kernel_below_dryness_limit", fmt.Sprintf("water routine with %d sub-steps: layer %d ends the day at %.17g, below the dryness limit %.17g (started at %.17g)", steps, z+1, wz, lo, start[z]), ev.Zeit, z+1, nil)
		}
		if wz > g.W[z]+0.055+eps { // field capacity + the largest tabulated capillary increment
			rc.Violate("C06", "kernel_above_field_capacity", fmt.Sprintf("water routine with %d sub-steps (layers filled to pore volume at the start: %v): layer %d ends the day at %.17g, field capacity %.17g (+ at most 0.055 capillary rise)", steps, raised, z+1, wz, g.W[z]), ev.Zeit, z+1, map[string]float64{"steps": float64(steps)})
		}
	}
	rc.Cov("kernel_water_days", 1)
	rc.Cov(fmt.Sprintf("kernel_water_days_%d_substeps", steps), 1)
	if raised {
		rc.Cov("kernel_water_days_layers_filled_to_pore_volume", 1)
	}
}

// nanSig attributes a non-finite value to the known root cause "field capacity above pore volume"
func nanSig(g *hermes.GlobalVarsMain, other string) string {
	for z := 0; z < 3 && z < g.N; z++ {
		if g.W[z] > g.PORGES[z] {
			return "nan_chain_fc_gt_ps"
		}
	}
	return other
}

func (m *monC06) Finish(rc *RunCtx) {
	scanResultFilesForNaN(rc, "C06")
	rc.Res.NonTrivial = rc.Res.Days > 30 && (m.lowSeen || m.highSeen)
}

// =====================================================================================
// C08: ETa <= ETp <= cap; uptake only from rooted layers above groundwater
// =====================================================================================

type monC08 struct {
	verd0    float64
	cropped  bool
	etp      float64
	tramaxOK bool
	wg0      [21]float64
	begZeit  int
	cropSeen bool
	capSeen  bool
}

func croppedNow(g *hermes.GlobalVarsMain, zeit int) bool {
	a := g.AKF.Index
	return zeit > g.SAAT[a] && g.INTWICK.Num > 1 &&
		((g.ERNTE[a] > 0 && zeit < g.ERNTE[a]) || (g.ERNTE[a] == 0 && zeit < g.ERNTE2[a]))
}

func (m *monC08) Event(ev *hermes.VerifEvent, rc *RunCtx) {
	g := ev.G
	const eps = 1e-12
	switch ev.Site {
	case "input_done":
		m.begZeit = g.BEGINN
	case "pre_evatra":
		m.verd0 = g.VERDUNST
		m.cropped = croppedNow(g, ev.Zeit)
		if ev.Zeit == m.begZeit {
			m.wg0 = g.WG[0]
		} else {
			m.wg0 = g.WG[1]
		}
	case "post_evatra":
		etp := (g.VERDUNST - m.verd0) / g.DT.Num
		m.etp = etp
		n := g.N
		sumTP := 0.0
		for z := 0; z < n; z++ {
			tp := g.TP[z]
			if !(tp >= 0) {
				rc.Violate("C08", "negative_uptake", fmt.Sprintf("layer %d root water uptake %.17g is negative or not a number", z+1, tp), ev.Zeit, z+1, nil)
			}
			sumTP += tp
			limit := math.Min(float64(g.WURZ), g.GRW)
			if float64(z+1) > limit && tp != 0 {
				rc.Violate("C08", "uptake_outside_root_zone", fmt.Sprintf("layer %d has uptake %.17g but rooting depth is %d and groundwater at %.3f dm", z+1, tp, g.WURZ, g.GRW), ev.Zeit, z+1, nil)
			}
		}
		if !(etp >= -eps) {
			sig := "negative_potential_et"
			if g.ETMETH == 2 && g.TEMP[g.TAG.Index] < -22 {
				sig = "negative_petp_turc"
			}
			rc.Violate("C08", sig, fmt.Sprintf("potential evapotranspiration %.17g cm is negative or not a number (method %d, T=%.1f)", etp, g.ETMETH, g.TEMP[g.TAG.Index]), ev.Zeit, 0, map[string]float64{"etp": etp, "temp": g.TEMP[g.TAG.Index]})
		}
		if !(g.ETA >= -eps) {
			sig := "negative_actual_evaporation"
			if g.ETMETH == 2 && g.TEMP[g.TAG.Index] < -22 {
				sig = "negative_petp_turc"
			}
			rc.Violate("C08", sig, fmt.Sprintf("actual evaporation %.17g cm is negative or not a number", g.ETA), ev.Zeit, 0, nil)
		}
		capv := 0.6
		if m.cropped {
			capv = 0.65
		}
		if etp > capv+eps {
			rc.Violate("C08", "potential_et_above_cap", fmt.Sprintf("potential ET %.17g cm above the daily cap %.2f (cropped=%v)", etp, capv, m.cropped), ev.Zeit, 0, nil)
		}
		if etp >= capv-1e-9 {
			m.capSeen = true
			rc.Cov("days_at_cap", 1)
		}
		if g.ETA+sumTP > etp+1e-10 {
			rc.Violate("C08", "actual_et_above_potential", fmt.Sprintf("actual evaporation %.17g + transpiration %.17g exceeds potential ET %.17g", g.ETA, sumTP, etp), ev.Zeit, 0, map[string]float64{"eta": g.ETA, "tp": sumTP, "etp": etp})
		}
		if m.cropped {
			m.cropSeen = true
			rc.Cov("days_cropped", 1)
			if !(g.TRREL >= -eps && g.TRREL <= 1+1e-9) {
				rc.Violate("C08", "transpiration_ratio_out_of_range", fmt.Sprintf("transpiration stress ratio %.17g outside [0,1]", g.TRREL), ev.Zeit, 0, nil)
			}
			if !(g.ETREL >= -eps && g.ETREL <= 1+1e-9) {
				rc.Violate("C08", "et_ratio_out_of_range", fmt.Sprintf("ET stress ratio %.17g outside [0,1]", g.ETREL), ev.Zeit, 0, nil)
			}
			if sumTP > 0 {
				rc.Cov("days_transpiration", 1)
			}
			if g.TRREL < 0.99 {
				rc.Cov("days_water_stress", 1)
			}
		} else {
			rc.Cov("days_bare", 1)
			if sumTP != 0 {
				rc.Violate("C08", "uptake_without_crop", fmt.Sprintf("root water uptake %.17g without a transpiring crop", sumTP), ev.Zeit, 0, nil)
			}
		}
		rc.Cov("days", 1)
		rc.Cov(fmt.Sprintf("days_et_method_%d", g.ETMETH), 1)
	case "post_water":
		if ev.Subd == 1 {
			for z := 0; z < g.N; z++ {
				avail := math.Max(0, (m.wg0[z]-g.WMIN[z])*g.DZ.Num)
				if g.TP[z] > avail+1e-12 {
					rc.Violate("C08", "uptake_above_available_water", fmt.Sprintf("layer %d uptake %.17g cm exceeds plant-available water %.17g cm", z+1, g.TP[z], avail), ev.Zeit, z+1, nil)
				}
			}
		}
	}
}

func (m *monC08) Finish(rc *RunCtx) {
	rc.Res.NonTrivial = rc.Res.Days > 30 && m.cropSeen
}
