package main

import (
	"fmt"
	"math"

	"github.com/zalf-rpm/Hermes2Go/hermes"
)

func sumC1(g *hermes.GlobalVarsMain) float64 {
	s := 0.0
	for z := 0; z < g.N; z++ {
		s += g.C1[z]
	}
	return s
}

func sumMin(g *hermes.GlobalVarsMain) float64 {
	s := 0.0
	for z := 0; z < len(g.MINAOS); z++ {
		s += g.MINAOS[z] + g.MINFOS[z]
	}
	return s
}

type nCounters struct {
	c1, min, ums, n2onit, aufna, outsum, drainloss, cumdenit float64
}

func snapN(g *hermes.GlobalVarsMain) nCounters {
	return nCounters{sumC1(g), sumMin(g), g.UMS, g.N2onitsum, g.AUFNASUM, g.OUTSUM, g.DRAINLOSS, g.CUMDENIT}
}

// counterUlp: the cumulative counters only resolve differences down to their own floating-point spacing; after an
// (flagged) unstable episode they can be astronomically large and swallow a day's fluxes
func counterUlp(c nCounters) float64 {
	m := 0.0
	for _, x := range []float64{c.c1, c.min, c.ums, c.n2onit, c.aufna, c.outsum, c.drainloss, c.cumdenit} {
		if a := math.Abs(x); a > m {
			m = a
		}
	}
	return 8 * m * 2.220446049250313e-16
}

// =====================================================================================
// C02: soil mineral N mass balance
// =====================================================================================

type monC02 struct {
	begin      nCounters
	pre        nCounters
	preNitro   nCounters
	lastPost   float64
	haveLast   bool
	measToday  bool
	clampDay   float64
	clampSub   float64
	bigClamp   bool
	sumWdt     float64
	steps, wdt float64
	drainUp    bool
	prevEndC1  float64
	havePrev   bool
	upward     bool
	multi      bool
	clampSeen  bool
	skipDay    bool
	liveG      *hermes.GlobalVarsMain
	kernelRng  *Rng
	kClamp     float64
}

func (m *monC02) Event(ev *hermes.VerifEvent, rc *RunCtx) {
	g := ev.G
	if g != nil && g.N < 2 {
		return // the statement is for profiles of at least two layers
	}
	if len(ev.Site) > 7 && ev.Site[:7] == "nclamp:" && m.liveG != nil && ev.G != m.liveG {
		m.kClamp += ev.Amount // clamp inside a kernel call on a copy of the state
		return
	}
	switch ev.Site {
	case "input_done":
		m.liveG = ev.G
		m.kernelRng = NewRng(mix(rc.Sc.Seed, uint64(rc.Sc.Index)+4242))
	case "day_begin":
		m.begin = snapN(g)
		m.measToday = measurementDay(g, ev.Zeit)
		m.skipDay = m.measToday
		if m.havePrev && !injectedDay(rc, ev.Zeit) && m.begin.c1 != m.prevEndC1 {
			rc.Violate("C02", "n_changed_between_days", fmt.Sprintf("profile mineral N changed between day end (%.17g) and next day begin (%.17g)", m.prevEndC1, m.begin.c1), ev.Zeit, 0, nil)
		}
	case "pre_evatra":
		m.pre = snapN(g)
		m.clampDay, m.sumWdt, m.drainUp, m.bigClamp = 0, 0, false, false
		m.haveLast = false
		if !m.skipDay {
			// deposition + N in irrigation water are the only additions before the day's processes
			exp := g.DEPOS / 365 * g.DT.Num
			if g.EffectiveIRRIG > 0 && g.NBR >= 2 {
				nIrr := g.BRKZ[g.NBR-2] * g.BREG[g.NBR-2] * 0.01
				if nIrr > 0 {
					exp += nIrr
				}
				rc.Cov("days_irrigation", 1)
			}
			got := m.pre.c1 - m.begin.c1
			if math.Abs(got-exp) > tolFor(m.pre.c1, exp) {
				rc.Violate("C02", "deposition_irrigation_input_mismatch", fmt.Sprintf("mineral N added before the daily processes %.17g != deposition + irrigation N %.17g", got, exp), ev.Zeit, 0, map[string]float64{"got": got, "expected": exp})
			}
		}
	case "pre_nitro":
		m.preNitro = snapN(g)
		m.clampSub = 0
		if ev.Subd == 1 {
			// evapotranspiration, soil temperature, water and crop growth do not touch mineral N
			if m.preNitro.c1 != m.pre.c1 {
				rc.Violate("C02", "n_changed_outside_n_routines", fmt.Sprintf("profile mineral N changed between start of day and the N routine (%.17g -> %.17g)", m.pre.c1, m.preNitro.c1), ev.Zeit, 0, nil)
			}
		} else if m.haveLast && m.preNitro.c1 != m.lastPost {
			rc.Violate("C02", "n_changed_outside_n_routines", fmt.Sprintf("profile mineral N changed between N sub-steps (%.17g -> %.17g)", m.lastPost, m.preNitro.c1), ev.Zeit, 0, nil)
		}
		if ev.Subd == 1 && m.kernelRng != nil && !m.skipDay && m.kernelRng.Bool(0.08) {
			m.kernel(ev, rc)
		}
	case "nclamp:carray", "nclamp:ckonz", "nclamp:source":
		if !(ev.Amount >= 0) {
			rc.Violate("C02", "clamp_removed_n", fmt.Sprintf("non-negativity clamp %s reported a negative amount %.17g", ev.Site, ev.Amount), 0, ev.Layer+1, nil)
		}
		m.clampDay += ev.Amount
		m.clampSub += ev.Amount
		if ev.Site == "nclamp:ckonz" && ev.Amount > 1.5 {
			m.bigClamp = true
		}
		m.clampSeen = true
		rc.Cov("clamp_engaged", 1)
	case "post_nitro":
		post := snapN(g)
		wdt := ev.Wdt
		m.wdt, m.steps = wdt, ev.Steps
		m.sumWdt += wdt
		dn := 0.0
		for z := 0; z < g.N; z++ {
			dn += g.DN[z]
		}
		drainUp := g.DRAIDEP >= 1 && g.DRAIDEP <= g.N && g.QDRAIN > 0 && g.Q1[g.DRAIDEP] < 0
		if drainUp {
			m.drainUp = true
			rc.Cov("substeps_drain_with_upward_flux", 1)
		}
		// interface sign combinations seen (coverage of the four convection branches)
		for z := 1; z <= g.N; z++ {
			a, b := g.Q1[z] >= 0, g.Q1[z-1] >= 0
			switch {
			case a && b:
				rc.Cov("conv_down_down", 1)
			case a && !b:
				rc.Cov("conv_down_up", 1)
			case !a && !b:
				rc.Cov("conv_up_up", 1)
				m.upward = true
			default:
				rc.Cov("conv_up_down", 1)
				m.upward = true
			}
		}
		if !m.skipDay {
			dC := post.c1 - m.preNitro.c1
			rhs := dn*wdt - (post.aufna - m.preNitro.aufna) - (post.outsum - m.preNitro.outsum) - (post.drainloss - m.preNitro.drainloss)
			res := dC - rhs
			if math.Abs(res-m.clampSub) > tolFor(post.c1, dn*wdt, post.aufna-m.preNitro.aufna, post.outsum-m.preNitro.outsum, m.clampSub)+counterUlp(post) || !finite(res) {
				sig := "substep_n_balance"
				if drainUp {
					sig = "drain_layer_upward_flux"
				}
				rc.Violate("C02", sig, fmt.Sprintf("N sub-step %d: mineral N change %.17g != source %.17g - uptake %.17g - leaching %.17g - drain loss %.17g + clamp %.17g (residual %.3g kg N/ha)", ev.Subd, dC, dn*wdt, post.aufna-m.preNitro.aufna, post.outsum-m.preNitro.outsum, post.drainloss-m.preNitro.drainloss, m.clampSub, res-m.clampSub),
					ev.Zeit, 0, map[string]float64{"residual": res - m.clampSub, "qdrain": g.QDRAIN, "subd": float64(ev.Subd)})
			}
		}
		m.lastPost = post.c1
		m.haveLast = true
		if ev.Subd > 1 {
			m.multi = true
		}
		rc.Cov("n_substeps", 1)
	case "pre_denit":
		if m.haveLast && sumC1(g) != m.lastPost {
			rc.Violate("C02", "n_changed_outside_n_routines", fmt.Sprintf("profile mineral N changed between the last N sub-step and denitrification (%.17g -> %.17g)", m.lastPost, sumC1(g)), ev.Zeit, 0, nil)
		}
	case "day_end":
		end := snapN(g)
		m.prevEndC1 = end.c1
		m.havePrev = true
		rc.Cov("days", 1)
		if m.skipDay {
			rc.Cov("days_excluded_measurement", 1)
			return
		}
		dC := end.c1 - m.pre.c1
		rhs := (end.min - m.pre.min) + (end.ums - m.pre.ums) - (end.n2onit - m.pre.n2onit) - (end.aufna - m.pre.aufna) -
			(end.outsum - m.pre.outsum) - (end.drainloss - m.pre.drainloss) - (end.cumdenit - m.pre.cumdenit)
		res := dC - rhs
		trunc := math.Abs(float64(int(m.steps))*m.wdt-1) > 1e-9
		if counterUlp(end) > 1e-9 {
			rc.Cov("days_counters_too_large_to_resolve", 1)
		}
		if math.Abs(res-m.clampDay) > tolFor(end.c1, end.min-m.pre.min, end.aufna-m.pre.aufna, end.outsum-m.pre.outsum, end.drainloss-m.pre.drainloss, m.clampDay)*10+counterUlp(end)*100 || !finite(res) {
			sig := "n_balance_residual"
			if end.cumdenit-m.pre.cumdenit > 0 && math.Abs(res-m.clampDay) <= (end.cumdenit-m.pre.cumdenit)*(1+1e-9) && (g.N < 9 && len(g.BART[0]) > 0 && g.BART[0][0] == 'H' || g.N < 3) {
				sig = "denitrification_below_profile"
			}
			if trunc {
				sig = "substep_truncation"
			} else if m.drainUp {
				sig = "drain_layer_upward_flux"
			}
			rc.Violate("C02", sig, fmt.Sprintf("day: mineral N change %.17g != net mineralisation %.17g + dissolved fertiliser %.17g - N2O %.17g - uptake %.17g - leaching %.17g - drain %.17g - denitrification %.17g + clamp %.17g (residual %.3g kg N/ha)",
				dC, end.min-m.pre.min, end.ums-m.pre.ums, end.n2onit-m.pre.n2onit, end.aufna-m.pre.aufna, end.outsum-m.pre.outsum, end.drainloss-m.pre.drainloss, end.cumdenit-m.pre.cumdenit, m.clampDay, res-m.clampDay),
				ev.Zeit, 0, map[string]float64{"residual": res - m.clampDay, "clamp": m.clampDay})
		}
		if m.bigClamp && g.C1NotStableErr == "" {
			rc.Violate("C02", "instability_flag_missing", "the non-negativity clamp exceeded the documented threshold (1.5 kg N/ha) but the run is not flagged unstable", ev.Zeit, 0, nil)
		}
		if m.bigClamp {
			rc.Cov("days_unstable_flagged", 1)
		}
		if end.cumdenit-m.pre.cumdenit > 0 {
			rc.Cov("days_denitrification", 1)
		}
		if end.drainloss-m.pre.drainloss > 0 {
			rc.Cov("days_drain_loss", 1)
		}
		if end.outsum-m.pre.outsum > 0 {
			rc.Cov("days_leaching", 1)
		}
		if end.aufna-m.pre.aufna > 0 {
			rc.Cov("days_uptake", 1)
		}
		if end.ums-m.pre.ums > 0 {
			rc.Cov("days_fertiliser_dissolving", 1)
		}
	}
}

// kernel: the real transport routine on a copy of the live state in which mineral N was mixed over the top layers the
// way a tillage on that day does it (after the crop routine has fixed its demand) and / or the demand of some layers
// exceeds what they hold: the uptake must be limited BEFORE it is accumulated, so the sub-step balance still closes.
func (m *monC02) kernel(ev *hermes.VerifEvent, rc *RunCtx) {
	g := *ev.G // copy: arrays by value; the routine touches no slice or map
	var l hermes.NitroSharedVars
	r := m.kernelRng
	n := g.N
	if r.Bool(0.5) {
		k := r.Range(1, mini(4, n))
		s := 0.0
		for z := 0; z < k; z++ {
			s += g.C1[z]
		}
		for z := 0; z < k; z++ {
			g.C1[z] = s / float64(k)
		}
	}
	engaged := false
	for z := 0; z < n; z++ {
		if r.Bool(0.4) {
			g.PE[z] = g.C1[z] * r.Uniform(0, 2)
		}
		if g.PE[z] > 0 && g.PE[z] > g.C1[z]-0.5 {
			engaged = true
		}
	}
	wdt := ev.Wdt
	before := snapN(&g)
	pes0 := g.PESUM
	m.kClamp = 0
	hermes.VerifNmove(wdt, 1, ev.Zeit, &g, &l)
	after := snapN(&g)
	dn := 0.0
	for z := 0; z < n; z++ {
		dn += g.DN[z]
	}
	dC := after.c1 - before.c1
	upt := after.aufna - before.aufna
	rhs := dn*wdt - upt - (after.outsum - before.outsum) - (after.drainloss - before.drainloss)
	res := dC - rhs - m.kClamp
	if math.Abs(res) > tolFor(after.c1, dn*wdt, upt, after.outsum-before.outsum, m.kClamp)+counterUlp(after) || !finite(res) {
		sig := "kernel_substep_n_balance"
		if g.DRAIDEP >= 1 && g.DRAIDEP <= n && g.QDRAIN > 0 && g.Q1[g.DRAIDEP] < 0 {
			sig = "drain_layer_upward_flux"
		}
		rc.Violate("C02", sig, fmt.Sprintf("transport routine on a state with mixed top-soil N / demand above the layer's content: mineral N change %.17g != source %.17g - uptake booked %.17g - leaching %.17g - drain loss %.17g + clamp %.17g (residual %.3g kg N/ha, uptake limit engaged=%v)", dC, dn*wdt, upt, after.outsum-before.outsum, after.drainloss-before.drainloss, m.kClamp, res, engaged),
			ev.Zeit, 0, map[string]float64{"residual": res})
	}
	inWin := g.SAAT[g.AKF.Index] > 0 && ev.Zeit >= g.SAAT[g.AKF.Index] && ev.Zeit <= g.ERNTE2[g.AKF.Index]
	fix := 0.0
	if inWin {
		fix = g.SCHNORR
	}
	if math.Abs((g.PESUM-pes0)-upt-fix) > tolFor(g.PESUM, upt) {
		rc.Violate("C02", "kernel_uptake_credit", fmt.Sprintf("transport routine: crop N gained %.17g, the cumulative uptake %.17g (+ fixation %.17g)", g.PESUM-pes0, upt, fix), ev.Zeit, 0, nil)
	}
	rc.Cov("kernel_transport_calls", 1)
	if engaged {
		rc.Cov("kernel_uptake_limit_engaged", 1)
	}
}

func (m *monC02) Finish(rc *RunCtx) {
	rc.Res.NonTrivial = rc.Res.Days > 30 && rc.Sc.Soil.N() >= 2 && (m.multi || m.upward)
}

// =====================================================================================
// C07: N pools non-negative; organic / fertiliser bookkeeping exact; once-per-day crediting
// =====================================================================================

type pools struct{ pa, pf float64 }

func snapPools(g *hermes.GlobalVarsMain) pools {
	var p pools
	for z := 0; z < g.N; z++ {
		p.pa += g.NAOS[z]
		p.pf += g.NFOS[z]
	}
	for z := 0; z < len(g.MINAOS); z++ {
		p.pa += g.MINAOS[z]
		p.pf += g.MINFOS[z]
	}
	return p
}

type monC07 struct {
	pw             pools // at post_water
	stagePW, akfPW int
	pn             pools // at pre_nitro
	last           pools
	haveLast       bool
	pesumPW        float64
	aufnaPW        float64
	nfixPW         float64
	pesumPre       float64
	aufnaPre       float64
	ndgPre         int
	akfPre         int
	ntilPre        int
	legumeMulti    bool
	tillSeen       bool
	fertSeen       bool
	kernelRng      *Rng
	multi          bool
}

func (m *monC07) Event(ev *hermes.VerifEvent, rc *RunCtx) {
	g := ev.G
	switch ev.Site {
	case "input_done":
		m.kernelRng = NewRng(mix(rc.Sc.Seed, uint64(rc.Sc.Index)+77))
	case "post_water":
		m.pw = snapPools(g)
		m.pesumPW, m.aufnaPW, m.nfixPW = g.PESUM, g.AUFNASUM, g.NFIXSUM
		m.stagePW, m.akfPW = g.INTWICK.Index, g.AKF.Index
		if m.haveLast && ev.Subd > 1 {
			if p := m.pw; math.Abs(p.pa-m.last.pa) > 0 || math.Abs(p.pf-m.last.pf) > 0 {
				rc.Violate("C07", "organic_pools_changed_outside_n_routines", fmt.Sprintf("organic pool + mineralised counter changed during the water routine (%.17g,%.17g -> %.17g,%.17g)", m.last.pa, m.last.pf, p.pa, p.pf), ev.Zeit, 0, nil)
			}
		}
	case "pre_nitro":
		m.pn = snapPools(g)
		m.pesumPre, m.aufnaPre = g.PESUM, g.AUFNASUM
		m.ndgPre, m.akfPre, m.ntilPre = g.NDG.Index, g.AKF.Index, g.NTIL.Index
		// crop growth may only ADD dead organs / roots to the pools
		if m.pn.pa < m.pw.pa-tolFor(m.pw.pa) || m.pn.pf < m.pw.pf-tolFor(m.pw.pf) {
			rc.Violate("C07", "organic_pool_decreased_in_crop_growth", fmt.Sprintf("organic pools decreased during crop growth (%.17g,%.17g -> %.17g,%.17g)", m.pw.pa, m.pw.pf, m.pn.pa, m.pn.pf), ev.Zeit, 0, nil)
		}
		// ... and what the crop routine adds to the pools (dead organs of a stand that dies back and sprouts again) is N the crop
		// gives up in the same call: the pools cannot gain more than the crop N falls
		// (checked on the day a permanent stand is set back to its first stage inside the crop routine; the small daily input
		// of dead roots is not taken from the crop N by the model and stays below the slack of 0.5 kg N/ha)
		if gain := (m.pn.pa - m.pw.pa) + (m.pn.pf - m.pw.pf); ev.Subd == 1 && g.INTWICK.Index < m.stagePW && g.AKF.Index == m.akfPW {
			lost := m.pesumPW - g.PESUM
			rc.Cov("days_permanent_stand_dies_back_and_sprouts_again", 1)
			if gain > math.Max(lost, 0)+0.5 {
				rc.Violate("C07", "organic_input_exceeds_crop_n_given_up", fmt.Sprintf("the crop routine added %.17g kg N/ha to the organic pools while the crop N fell by %.17g kg N/ha (crop N %.17g -> %.17g)", gain, lost, m.pesumPW, g.PESUM), ev.Zeit, 0, nil)
			}
		}
		if ev.Subd > 1 && (m.pn.pa != m.pw.pa || m.pn.pf != m.pw.pf) {
			rc.Violate("C07", "organic_pools_changed_outside_n_routines", "organic pools changed between water routine and N routine on a later sub-step", ev.Zeit, 0, nil)
		}
		if ev.Subd == 1 && m.kernelRng != nil && m.kernelRng.Bool(0.05) {
			m.kernel(ev, rc)
		}
	case "post_nitro":
		p := snapPools(g)
		fert := g.NDG.Index != m.ndgPre
		harvest := g.AKF.Index != m.akfPre
		till := g.NTIL.Index != m.ntilPre
		dA, dF := p.pa-m.pn.pa, p.pf-m.pn.pf
		tolA, tolF := tolFor(p.pa, m.pn.pa)*10, tolFor(p.pf, m.pn.pf)*10
		switch {
		case ev.Subd > 1:
			if dA != 0 || dF != 0 {
				rc.Violate("C07", "organic_pools_changed_on_later_substep", fmt.Sprintf("organic pool + counter changed on sub-step %d (slow %.3g, fast %.3g)", ev.Subd, dA, dF), ev.Zeit, 0, nil)
			}
		case harvest:
			if dA < -tolA || dF < -tolF {
				rc.Violate("C07", "organic_pool_decreased_at_harvest", fmt.Sprintf("organic pool + counter decreased on a harvest day (slow %.3g, fast %.3g)", dA, dF), ev.Zeit, 0, nil)
			}
			rc.Cov("harvest_days", 1)
		case fert && !g.AUTOFERT:
			expF, expA := g.NSAS[m.ndgPre], g.NLAS[m.ndgPre]
			if math.Abs(dA-expA) > tolA || math.Abs(dF-expF) > tolF {
				rc.Violate("C07", "fertiliser_organic_input_mismatch", fmt.Sprintf("fertiliser day: slow pool+counter changed by %.17g (organic slow N applied %.17g), fast by %.17g (applied %.17g)", dA, expA, dF, expF), ev.Zeit, 0, nil)
			}
			m.fertSeen = true
			rc.Cov("fertiliser_days", 1)
		case g.AUTOFERT:
			if dA < -tolA || dF < -tolF {
				rc.Violate("C07", "organic_pool_decreased", fmt.Sprintf("organic pool + counter decreased (slow %.3g, fast %.3g)", dA, dF), ev.Zeit, 0, nil)
			}
		default:
			// mineralisation moves N from pool to counter, tillage mixes: the sums are preserved
			if math.Abs(dA) > tolA || math.Abs(dF) > tolF {
				sig := "mineralisation_bookkeeping"
				if till {
					sig = "tillage_mixing_not_conservative"
				}
				rc.Violate("C07", sig, fmt.Sprintf("slow pool + mineralised counter changed by %.3g, fast by %.3g on a day without organic input (tillage=%v)", dA, dF, till), ev.Zeit, 0, map[string]float64{"dSlow": dA, "dFast": dF})
			}
		}
		if till {
			m.tillSeen = true
			rc.Cov("tillage_days", 1)
		}
		// ---- once-per-day crediting of uptake and fixation ----
		sumPE := 0.0
		for z := 0; z < g.N; z++ {
			sumPE += g.PE[z]
		}
		dAuf := g.AUFNASUM - m.aufnaPre
		dPes := g.PESUM - m.pesumPre
		if ev.Subd == 1 {
			if math.Abs(dAuf-sumPE) > tolFor(g.AUFNASUM, sumPE) {
				rc.Violate("C07", "uptake_credit_mismatch", fmt.Sprintf("cumulative uptake changed by %.17g but the layers delivered %.17g", dAuf, sumPE), ev.Zeit, 0, nil)
			}
			if !harvest {
				a := g.AKF.Index
				inWin := g.SAAT[a] > 0 && ev.Zeit >= g.SAAT[a] && ev.Zeit <= g.ERNTE2[a] // a crop of this rotation entry has been sown
				exp := sumPE
				if inWin {
					exp += g.SCHNORR
				}
				if math.Abs(dPes-exp) > tolFor(g.PESUM, exp) {
					rc.Violate("C07", "crop_n_credit_mismatch", fmt.Sprintf("crop N changed by %.17g on the first sub-step, expected uptake %.17g + fixation %.17g", dPes, sumPE, exp-sumPE), ev.Zeit, 0, nil)
				}
				// independent of the hand-over variable: what is credited as fixation today is what the cumulative fixation gained today
				fixToday := g.NFIXSUM - m.nfixPW
				if math.Abs((dPes-sumPE)-fixToday) > tolFor(g.PESUM, fixToday) {
					rc.Violate("C07", "fixation_credit_ne_fixation", fmt.Sprintf("crop N was credited %.17g kg N/ha beyond the uptake of the layers, the cumulative fixation gained %.17g today (legume=%v)", dPes-sumPE, fixToday, g.LEGUM), ev.Zeit, 0, map[string]float64{"credited": dPes - sumPE, "fixed": fixToday})
				}
				if fixToday > 0 {
					rc.Cov("days_with_fixation", 1)
				} else if g.SAAT[a] > 0 && !g.LEGUM {
					rc.Cov("non_legume_crop_days", 1)
				}
			}
		} else {
			m.multi = true
			if dAuf != 0 {
				rc.Violate("C07", "uptake_on_substep>1", fmt.Sprintf("cumulative uptake changed by %.17g on sub-step %d", dAuf, ev.Subd), ev.Zeit, 0, nil)
			}
			if dPes != 0 {
				sig := "crop_n_changed_on_substep>1"
				if g.SCHNORR != 0 && math.Abs(dPes-g.SCHNORR) <= tolFor(g.PESUM) {
					sig = "fixation_on_substep>1"
				}
				rc.Violate("C07", sig, fmt.Sprintf("crop N changed by %.17g on sub-step %d of the day (fixation of the day %.17g): credited more than once per day", dPes, ev.Subd, g.SCHNORR), ev.Zeit, 0, map[string]float64{"dPESUM": dPes, "fixation": g.SCHNORR})
			}
			if g.NFIXSUM != m.nfixPW {
				rc.Violate("C07", "fixation_sum_on_substep>1", "cumulative fixation changed on a later sub-step", ev.Zeit, 0, nil)
			}
			if g.SCHNORR > 0 {
				m.legumeMulti = true
				rc.Cov("legume_fixation_multi_substep_steps", 1)
			}
		}
		m.last = p
		m.haveLast = true
	case "day_end":
		const eps = 1e-9
		for z := 0; z < g.N; z++ {
			for name, v := range map[string]float64{"mineral N": g.C1[z], "slow organic N": g.NAOS[z], "fast organic N": g.NFOS[z]} {
				if !finite(v) {
					rc.Violate("C07", nanSig(g, "n_pool_not_finite"), fmt.Sprintf("layer %d %s is %v", z+1, name, v), ev.Zeit, z+1, nil)
				} else if v < -eps {
					rc.Violate("C07", "negative_n_pool", fmt.Sprintf("layer %d %s is negative: %.17g", z+1, name, v), ev.Zeit, z+1, nil)
				}
			}
		}
		cnt := map[string]float64{"dissolved fertiliser": g.UMS, "applied fertiliser": g.DSUMM, "ammonium applied": g.NH4Sum, "ammonium nitrified": g.NH4UMS,
			"cumulative uptake": g.AUFNASUM, "drain loss": g.DRAINLOSS, "denitrification": g.CUMDENIT, "N2O nitrification": g.N2onitsum, "fixation": g.NFIXSUM,
			"N2O denitrification": g.N2Odencum, "N2O denitrification of the day": g.N2OdenDaily}
		if g.OUTN == g.N {
			cnt["leaching"] = g.OUTSUM
		}
		for z := 0; z < len(g.MINAOS); z++ {
			cnt[fmt.Sprintf("mineralised slow %d", z+1)] = g.MINAOS[z]
			cnt[fmt.Sprintf("mineralised fast %d", z+1)] = g.MINFOS[z]
		}
		for name, v := range cnt {
			if !finite(v) {
				rc.Violate("C07", nanSig(g, "n_counter_not_finite"), fmt.Sprintf("%s counter is %v", name, v), ev.Zeit, 0, nil)
			} else if v < -eps {
				rc.Violate("C07", "negative_n_counter", fmt.Sprintf("%s counter is negative: %.17g", name, v), ev.Zeit, 0, nil)
			}
		}
		if g.UMS > g.DSUMM+tolFor(g.DSUMM) {
			rc.Violate("C07", "dissolved_exceeds_applied", fmt.Sprintf("dissolved fertiliser %.17g exceeds fertiliser applied %.17g", g.UMS, g.DSUMM), ev.Zeit, 0, nil)
		}
		if g.NH4UMS > g.NH4Sum+tolFor(g.NH4Sum) {
			rc.Violate("C07", "nitrified_exceeds_applied", fmt.Sprintf("nitrified ammonium %.17g exceeds ammonium applied %.17g", g.NH4UMS, g.NH4Sum), ev.Zeit, 0, nil)
		}
		if g.TD[1] <= 0 {
			rc.Cov("days_frozen_topsoil", 1)
		}
		rc.Cov("days", 1)
	}
}

// kernel: the real mineralisation routine on a copy of the live state with injected temperature / moisture
func (m *monC07) kernel(ev *hermes.VerifEvent, rc *RunCtx) {
	g := *ev.G // copy (arrays by value; maps/slices are not touched by the routine)
	var l hermes.NitroSharedVars
	r := m.kernelRng
	n := g.N
	for z := 0; z <= n; z++ {
		g.TD[z] = r.Uniform(-15, 40)
	}
	for z := 0; z < n; z++ {
		lo := g.WMIN[z] / 3
		g.WG[0][z] = lo + r.F()*(g.PORGES[z]-lo)
		g.NAOS[z] = r.Uniform(0, 3000)
		g.NFOS[z] = r.Uniform(0, 300)
	}
	g.DSUMM = r.Uniform(0, 400)
	g.UMS = g.DSUMM * r.F()
	g.NH4Sum = g.DSUMM * r.F()
	g.NH4UMS = g.NH4Sum * r.F()
	before := g
	hermes.VerifMineral(&g, &l)
	num := g.IZM / g.DZ.Index
	for z := 0; z < n; z++ {
		dPool := g.NAOS[z] - before.NAOS[z]
		dPoolF := g.NFOS[z] - before.NFOS[z]
		dCnt, dCntF := 0.0, 0.0
		if z < len(g.MINAOS) {
			dCnt = g.MINAOS[z] - before.MINAOS[z]
			dCntF = g.MINFOS[z] - before.MINFOS[z]
		}
		if math.Abs(dPool+dCnt) > tolFor(before.NAOS[z]) || math.Abs(dPoolF+dCntF) > tolFor(before.NFOS[z]) {
			rc.Violate("C07", "mineralisation_bookkeeping", fmt.Sprintf("kernel: layer %d pool change %.17g/%.17g is not what the mineralised counters gained %.17g/%.17g (T=%.1f)", z+1, dPool, dPoolF, dCnt, dCntF, (g.TD[z]+g.TD[z+1])/2), ev.Zeit, z+1, nil)
		}
		if dPool > 0 || dPoolF > 0 {
			rc.Violate("C07", "mineralisation_increased_pool", fmt.Sprintf("kernel: layer %d organic pool increased by mineralisation", z+1), ev.Zeit, z+1, nil)
		}
		if z >= num && (dPool != 0 || dPoolF != 0) {
			rc.Violate("C07", "mineralisation_below_depth", fmt.Sprintf("kernel: layer %d below the mineralisation depth changed", z+1), ev.Zeit, z+1, nil)
		}
	}
	// source term = what left the pools + dissolved fertiliser - N2O
	dn, left := 0.0, 0.0
	for z := 0; z < n; z++ {
		dn += g.DN[z]
		left += (before.NAOS[z] - g.NAOS[z]) + (before.NFOS[z] - g.NFOS[z])
	}
	for z := num; z < n; z++ {
		dn -= g.DN[z] // layers below the mineralisation depth keep an older value
	}
	exp := left + (g.UMS - before.UMS) - (g.N2onitsum - before.N2onitsum)
	if math.Abs(dn-exp) > tolFor(left, g.UMS)*10 {
		rc.Violate("C07", "source_term_mismatch", fmt.Sprintf("kernel: source term %.17g != pools released %.17g + fertiliser dissolved %.17g - N2O %.17g", dn, left, g.UMS-before.UMS, g.N2onitsum-before.N2onitsum), ev.Zeit, 0, nil)
	}
	if g.UMS > g.DSUMM+tolFor(g.DSUMM) || g.UMS < before.UMS {
		rc.Violate("C07", "dissolved_exceeds_applied", fmt.Sprintf("kernel: dissolved fertiliser %.17g vs applied %.17g (before %.17g)", g.UMS, g.DSUMM, before.UMS), ev.Zeit, 0, nil)
	}
	rc.Cov("kernel_mineralisation_calls", 1)
	if (g.TD[0]+g.TD[1])/2 <= 0 {
		rc.Cov("kernel_frozen_calls", 1)
	}
}

func (m *monC07) Finish(rc *RunCtx) {
	rc.Res.NonTrivial = rc.Res.Days > 30 && (m.multi || m.tillSeen || m.fertSeen)
}
