package hermes

// Demonstration for property C09 ("crop state stays valid and development never runs backwards").
//
// Configuration: sowing dates fixed by the rotation file (AutoSowingHarvest=0), harvest automatic
// (AutoHarvest=1, deadlines from the shipped automan.txt). When the standing crop is harvested on
// or after the sowing date of the following crop, the model is supposed to postpone that sowing to
// "harvest + 4 days" (crop.go has code for it in three places). On the unchanged code the
// postponement is lost
//   - always, when an emerged crop is harvested at its deadline (the code that moves the sowing date
//     is unreachable, because the harvest date has been set a few lines before), and
//   - when the harvest day is exactly the sowing day ("<" instead of "<=").
// The following crop is then never sown: its parameters are never read, its development stage index
// stays at -1 while the daily loop already treats it as the growing crop, and the crop routine aborts
// the whole run with "index out of range [-1]" - no valid crop state, no phenology, no result line.
//
// All inputs are the shipped ones (examples/project/zuc, examples/parameter, examples/weather);
// only the rotation file and the two management switches are set by the test.

import (
	"encoding/csv"
	"fmt"
	"math"
	"os"
	"path/filepath"
	"strconv"
	"strings"
	"testing"
	"time"
)

var c09DailyCols = []string{"AKTUELL", "AKF.Index", "INTWICK.Index", "WORG:0", "WORG:1", "WORG:2", "WORG:3", "WORG:4",
	"OBMAS", "WUMAS", "LAI", "ASPOO", "PESUM", "GEHOB", "WUGEH", "TRREL", "REDUK", "WURZ", "N"}

func c09DailyConf() string {
	var sb strings.Builder
	sb.WriteString("FillCharacter: ' '\nSeperatorCharacter: ','\nNaValue: n.a.\nHeadlines:\n  1:\n")
	for _, c := range c09DailyCols {
		sb.WriteString("  - ColumnName: '" + c + "'\n")
	}
	sb.WriteString("DataColumns:\n")
	for _, c := range c09DailyCols {
		parts := strings.Split(c, ":")
		format := "%v"
		if parts[0] == "AKTUELL" {
			format = "%s"
		}
		sb.WriteString(fmt.Sprintf("- Format: '%s'\n  Width: 12\n  VariableName: %s\n", format, parts[0]))
		if len(parts) > 1 {
			sb.WriteString(fmt.Sprintf("  VarIndex1: %s\n", parts[1]))
		}
	}
	return sb.String()
}

func c09CopyFiles(t *testing.T, src, dst string, only func(name string) bool) {
	t.Helper()
	if err := os.MkdirAll(dst, 0755); err != nil {
		t.Fatal(err)
	}
	entries, err := os.ReadDir(src)
	if err != nil {
		t.Fatal(err)
	}
	for _, e := range entries {
		if e.IsDir() || (only != nil && !only(e.Name())) {
			continue
		}
		b, err := os.ReadFile(filepath.Join(src, e.Name()))
		if err != nil {
			t.Fatal(err)
		}
		if err := os.WriteFile(filepath.Join(dst, e.Name()), b, 0644); err != nil {
			t.Fatal(err)
		}
	}
}

// c09Run runs the shipped project "zuc" with the given rotation (plot 10001 = field L2F3R1),
// fixed sowing dates and automatic harvest. It returns the panic value (nil if none), the run error,
// the daily rows and the lines of the crop result file.
func c09Run(t *testing.T, rotation []string, endDate string) (panicked interface{}, runErr error, daily []map[string]string, cropLines [][]string) {
	t.Helper()
	ex, err := filepath.Abs(filepath.Join("..", "examples"))
	if err != nil {
		t.Fatal(err)
	}
	root := t.TempDir()
	proj := filepath.Join(root, "project", "zuc")
	c09CopyFiles(t, filepath.Join(ex, "project", "zuc"), proj, nil)
	c09CopyFiles(t, filepath.Join(ex, "parameter"), filepath.Join(root, "parameter"), nil)
	c09CopyFiles(t, filepath.Join(ex, "weather", "historical"), filepath.Join(root, "weather", "historical"),
		func(n string) bool { return n == "109_120.csv" })
	crop := "Field_ID,crp,sowing,harvst,Rex,yld,autorg,variety,comment\n" + strings.Join(rotation, "\n") + "\n"
	if err := os.WriteFile(filepath.Join(proj, "crop_zuc.csv"), []byte(crop), 0644); err != nil {
		t.Fatal(err)
	}
	// daily output configuration for the observation of the crop state
	if err := os.WriteFile(filepath.Join(proj, "dailyout_conf.yml"), []byte(c09DailyConf()), 0644); err != nil {
		t.Fatal(err)
	}
	res := filepath.Join(root, "RESULT")
	args := []string{"project=zuc", "plotNr=10001", "soilId=001", "fcode=109_120", "poligonID=1",
		"resultfolder=" + res,
		"AutoSowingHarvest=0", // sowing dates as given in the rotation file
		"AutoHarvest=1",       // harvest on demand, deadline from automan.txt
		"EndDate=" + endDate}

	session := NewHermesSession()
	out := make(chan *RunReturn, 1)
	logout := make(chan string, 1000)
	func() {
		defer func() { panicked = recover() }()
		session.Run(root, args, "c09", out, logout)
	}()
	session.Close()
	select {
	case r := <-out:
		if !r.Success {
			runErr = r.Err
		}
	default:
	}

	readCSV := func(pattern string) [][]string {
		files, _ := filepath.Glob(filepath.Join(res, pattern))
		if len(files) == 0 {
			return nil
		}
		f, err := os.Open(files[0])
		if err != nil {
			return nil
		}
		defer f.Close()
		rd := csv.NewReader(f)
		rd.FieldsPerRecord = -1
		recs, _ := rd.ReadAll()
		return recs
	}
	for i, rec := range readCSV("V*.csv") {
		if i == 0 {
			continue
		}
		m := map[string]string{}
		for j, c := range c09DailyCols {
			if j < len(rec) {
				m[c] = strings.TrimSpace(rec[j])
			}
		}
		daily = append(daily, m)
	}
	cropLines = readCSV("C*.csv")
	return
}

func c09Float(s string) float64 {
	v, err := strconv.ParseFloat(strings.TrimSpace(s), 64)
	if err != nil {
		return math.NaN()
	}
	return v
}

// c09Check verifies the property for the crop with rotation index `akf` (0 = previous crop of the
// rotation file) and abbreviation `abbr`.
func c09Check(t *testing.T, panicked interface{}, runErr error, daily []map[string]string, cropLines [][]string, akf int, abbr string) {
	t.Helper()
	if panicked != nil {
		last := "(no daily output)"
		if len(daily) > 0 {
			last = daily[len(daily)-1]["AKTUELL"]
		}
		t.Fatalf("C09 violated: the run aborted with a panic in the crop module (%v); last simulated day written: %s. "+
			"The crop %s was never sown (development stage index -1, no parameters) although the model already treats it as the growing crop.",
			panicked, last, abbr)
	}
	if runErr != nil {
		t.Fatalf("run failed: %v", runErr)
	}

	// ---- crop result file: the crop has been sown after the harvest of its predecessor, phenology is ordered
	// columns of the shipped cropout_conf.yml: SowDate,SowDOY,EmergDOY,AnthDOY,MatDOY,HarvestYear,HarvestDOY,Crop,...
	var prevHarvest, sowDate, harvestDate time.Time
	found := false
	for _, rec := range cropLines {
		if len(rec) < 8 {
			continue
		}
		sd, err := time.Parse("02.01.2006", strings.TrimSpace(rec[0]))
		if err != nil {
			continue // head lines
		}
		hy, _ := strconv.Atoi(strings.TrimSpace(rec[5]))
		hd, _ := strconv.Atoi(strings.TrimSpace(rec[6]))
		h := time.Date(hy, 1, 1, 0, 0, 0, 0, time.UTC).AddDate(0, 0, hd-1)
		if strings.TrimSpace(rec[7]) == abbr && !found && !prevHarvest.IsZero() {
			found = true
			sowDate, harvestDate = sd, h
			if !sd.After(prevHarvest) {
				t.Errorf("C09 violated: %s reported as sown on %s, not after the harvest of the preceding crop (%s)", abbr, rec[0], prevHarvest.Format("02.01.2006"))
			}
			emerg, _ := strconv.Atoi(strings.TrimSpace(rec[2]))
			if emerg == 0 {
				t.Errorf("C09 violated: %s sown on %s never emerged (EmergDOY=0)", abbr, rec[0])
			}
			// sowing <= emergence <= anthesis <= maturity <= harvest (days of year, unrolled over the year change)
			prev := float64(sd.YearDay())
			harv := float64(hd + 365*(hy-sd.Year()))
			for _, k := range []int{2, 3, 4} {
				v := c09Float(rec[k])
				if v == 0 {
					continue
				}
				for v < prev-0.5 {
					v += 365
				}
				if v > harv+1.5 {
					t.Errorf("C09 violated: phenology of %s out of order: %v", abbr, rec[:8])
				}
				prev = v
			}
			break
		}
		prevHarvest = h
	}
	if !found {
		t.Fatalf("C09 violated: no result line for the crop %s - it was never sown/harvested. crop result: %v", abbr, cropLines)
	}

	// ---- daily crop state between sowing and harvest of that crop
	prevStage := -1.0
	days := 0
	for _, m := range daily {
		d, err := time.Parse("02.01.2006", m["AKTUELL"])
		if err != nil || d.Before(sowDate) || d.After(harvestDate.AddDate(0, 0, -1)) {
			continue
		}
		if int(c09Float(m["AKF.Index"])) != akf {
			t.Errorf("%s: current crop index %s, expected %d", m["AKTUELL"], m["AKF.Index"], akf)
			continue
		}
		days++
		st := c09Float(m["INTWICK.Index"])
		if !(st >= 0) {
			t.Errorf("C09 violated: %s growing on %s with development stage index %s", abbr, m["AKTUELL"], m["INTWICK.Index"])
		}
		if st < prevStage {
			t.Errorf("C09 violated: development stage of %s decreases on %s: %v -> %v", abbr, m["AKTUELL"], prevStage, st)
		}
		prevStage = st
		for _, k := range []string{"WORG:0", "WORG:1", "WORG:2", "WORG:3", "WORG:4", "OBMAS", "WUMAS", "LAI", "ASPOO", "PESUM", "GEHOB", "WUGEH"} {
			v := c09Float(m[k])
			if math.IsNaN(v) || math.IsInf(v, 0) || v < 0 {
				t.Errorf("C09 violated: %s on %s: %s = %s", abbr, m["AKTUELL"], k, m[k])
			}
		}
		for _, k := range []string{"TRREL", "REDUK"} {
			v := c09Float(m[k])
			if math.IsNaN(v) || v < 0 || v > 1+1e-9 {
				t.Errorf("C09 violated: %s on %s: stress factor %s = %s", abbr, m["AKTUELL"], k, m[k])
			}
		}
		if c09Float(m["WURZ"]) > c09Float(m["N"]) {
			t.Errorf("C09 violated: %s on %s: rooting depth %s below the profile (%s layers)", abbr, m["AKTUELL"], m["WURZ"], m["N"])
		}
	}
	if days == 0 {
		t.Errorf("no daily crop state found for %s between %s and %s", abbr, sowDate.Format("02.01.2006"), harvestDate.Format("02.01.2006"))
	}
	t.Logf("%s sown %s, harvested %s, %d days of valid crop state", abbr, sowDate.Format("02.01.2006"), harvestDate.Format("02.01.2006"), days)
}

// Sugar beet followed by winter wheat, the usual sequence: the wheat is to be sown on 20 October, the
// beet (which does not reach its last development stage) is lifted at the automatic-harvest deadline
// of the shipped automan.txt, 25 October.
func TestC09SowingDateBeforeAutomaticHarvestDeadline(t *testing.T) {
	rotation := []string{
		"L2F3R1,WW ,01101979,04081980,080,050,0,,initial",
		"L2F3R1,ZR ,10041981,15101981,000,000,0,,",
		"L2F3R1,WW ,20101981,04081982,000,000,0,,",
		"L2F3R1,SM ,20041983,06091983,000,000,0,,",
	}
	p, e, daily, crops := c09Run(t, rotation, "31121983")
	c09Check(t, p, e, daily, crops, 2, "WW")
}

// Silage maize (deadline 10 September) followed by winter wheat sown on the deadline day itself.
func TestC09SowingDateOnAutomaticHarvestDeadline(t *testing.T) {
	rotation := []string{
		"L2F3R1,WW ,01101979,04081980,080,050,0,,initial",
		"L2F3R1,SM ,20041981,06091981,000,000,0,,",
		"L2F3R1,WW ,10091981,04081982,000,000,0,,",
		"L2F3R1,WRA,20081982,20071983,000,000,0,,",
	}
	p, e, daily, crops := c09Run(t, rotation, "31121983")
	c09Check(t, p, e, daily, crops, 2, "WW")
}

// Winter wheat becomes ripe and is harvested automatically on 28 July 1982 (shipped weather);
// winter rape is to be sown on exactly that day.
func TestC09SowingDateOnDayOfAutomaticHarvest(t *testing.T) {
	rotation := []string{
		"L2F3R1,WW ,01101979,04081980,080,050,0,,initial",
		"L2F3R1,WRA,20081980,20071981,000,000,0,,",
		"L2F3R1,WW ,01101981,20071982,000,000,0,,",
		"L2F3R1,WRA,28071982,20071983,000,000,0,,",
	}
	p, e, daily, crops := c09Run(t, rotation, "31121983")
	c09Check(t, p, e, daily, crops, 3, "WRA")
}
