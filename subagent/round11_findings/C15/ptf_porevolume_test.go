package hermes

// Demonstration for property C15 (soil hydraulic parameters are physically ordered
// for every parameter source): with a pedotransfer function selected (config "PTF: 1..4")
// the field capacity computed by the transfer function is never compared with the total
// pore volume of the layer, so the simulation runs with field capacity > pore volume.
//
// The test builds a project in t.TempDir() from the shipped example project MUN,
// the shipped parameter folder and the shipped MUN weather, replaces the soil file by a
// two-horizon clay profile (KA5 class TS2, bulk density class 4) whose pore volume column
// holds exactly the value of the shipped texture table (HYPAR.TRU) for that class, and
// prints W (field capacity), WMIN (wilting point) and PORGES (pore volume) of every layer
// with an ordinary daily output configuration.

import (
	"fmt"
	"io"
	"os"
	"path/filepath"
	"strconv"
	"strings"
	"testing"
)

func c15CopyTree(t *testing.T, src, dst string) {
	t.Helper()
	err := filepath.Walk(src, func(p string, info os.FileInfo, err error) error {
		if err != nil {
			return err
		}
		rel, _ := filepath.Rel(src, p)
		target := filepath.Join(dst, rel)
		if info.IsDir() {
			return os.MkdirAll(target, 0o755)
		}
		in, err := os.Open(p)
		if err != nil {
			return err
		}
		defer in.Close()
		out, err := os.Create(target)
		if err != nil {
			return err
		}
		defer out.Close()
		_, err = io.Copy(out, in)
		return err
	})
	if err != nil {
		t.Fatal(err)
	}
}

// pore volume (Vol.%) of the shipped texture table for a texture and a bulk density class
func c15TablePoreVolume(t *testing.T, hypar, texture string, ld int) int {
	t.Helper()
	data, err := os.ReadFile(hypar)
	if err != nil {
		t.Fatal(err)
	}
	for _, l := range strings.Split(string(data), "\n") {
		if len(l) >= 30 && strings.ToUpper(l[0:3]) == texture {
			col := map[int][2]int{1: {22, 24}, 2: {22, 24}, 3: {25, 27}, 4: {28, 30}, 5: {28, 30}}[ld]
			v, err := strconv.Atoi(strings.TrimSpace(l[col[0]:col[1]]))
			if err != nil {
				t.Fatal(err)
			}
			return v
		}
	}
	t.Fatalf("texture %s not in %s", texture, hypar)
	return 0
}

func TestPTFFieldCapacityWithinPoreVolume(t *testing.T) {
	const nLayers = 20
	const texture = "TS2"
	const ld = 4
	const sand, silt, clay = 22, 14, 64 // % - a sandy clay: KA5 class TS2 (clay 45-65 %, silt 0-15 %)

	examples, err := filepath.Abs(filepath.Join("..", "examples"))
	if err != nil {
		t.Fatal(err)
	}
	// the input is consistent with the project's own classification and tables
	if got := SandAndClayToKa5Texture(sand, clay); got != texture {
		t.Fatalf("test setup: %d/%d/%d is classified as %q, not %q", sand, silt, clay, got, texture)
	}
	ps := c15TablePoreVolume(t, filepath.Join(examples, "parameter", "HYPAR.TRU"), texture, ld)

	root := t.TempDir()
	c15CopyTree(t, filepath.Join(examples, "project", "MUN"), filepath.Join(root, "project", "MUN"))
	c15CopyTree(t, filepath.Join(examples, "parameter"), filepath.Join(root, "parameter"))
	c15CopyTree(t, filepath.Join(examples, "weather", "MUN"), filepath.Join(root, "weather", "MUN"))
	prj := filepath.Join(root, "project", "MUN")

	// soil file in the fixed-width format of examples/project/MUN/soil_MUN.txt
	// (FC and WP columns blank: they come from the transfer function; PS = table value)
	line := func(corg float64, lowerBoundary int, first bool) string {
		head := "     "
		if first {
			head = "09 02" // root depth, number of horizons
		}
		return fmt.Sprintf("001 %4.2f %-3s %02d %d 00 012 xxx 00 %s         %02d %02d %02d %02d 00  08   0.8  \n",
			corg, texture, lowerBoundary, ld, head, ps, sand, silt, clay)
	}
	soil := "SID Corg Te  Lb B ST C/N C/S Hy Rd NUHo  FC WP PS S% Si C% Lmd  drdp drf\n" +
		line(1.0, 3, true) +
		line(0.3, nLayers, false)
	if err := os.WriteFile(filepath.Join(prj, "soil_MUN.txt"), []byte(soil), 0o644); err != nil {
		t.Fatal(err)
	}
	t.Logf("soil file:\n%s", soil)

	// daily output: date, W, WMIN, PORGES and water content of all layers
	var conf strings.Builder
	conf.WriteString("FillCharacter: ' '\nSeperatorCharacter: ','\nNaValue: n.a.\nDataColumns:\n- Format: '%s'\n  VariableName: AKTUELL\n")
	for _, v := range []string{"W", "WMIN", "PORGES"} {
		for i := 0; i < nLayers; i++ {
			conf.WriteString(fmt.Sprintf("- Format: '%%.6f'\n  VariableName: %s\n  VarIndex1: %d\n", v, i))
		}
	}
	for i := 0; i < nLayers; i++ {
		conf.WriteString(fmt.Sprintf("- Format: '%%.6f'\n  VariableName: WG\n  VarIndex1: 0\n  VarIndex2: %d\n", i))
	}
	if err := os.WriteFile(filepath.Join(prj, "dailyout_conf.yml"), []byte(conf.String()), 0o644); err != nil {
		t.Fatal(err)
	}

	for ptf := 1; ptf <= 4; ptf++ {
		res := filepath.Join(root, fmt.Sprintf("RESULT_PTF%d", ptf))
		// batch line of examples/old_format_mun_batch.txt, shortened to 2009-2010, csv output, PTF selected
		args := []string{"project=MUN", "WeatherFolder=MUN", "soilId=001", "fcode=NEU", "plotNr=00001", "poligonID=MUN",
			"parameter=./parameter", "StartYear=2009", "EndDate=31122010", "resultfolder=" + res,
			"ResultFileFormat=1", "ResultFileExt=csv", "OutputIntervall=1", fmt.Sprintf("PTF=%d", ptf)}
		session := NewHermesSession()
		out := make(chan *RunReturn, 1)
		logout := make(chan string, 100)
		done := make(chan bool)
		go func() {
			for range logout {
			}
			done <- true
		}()
		session.Run(root, args, fmt.Sprintf("ptf%d", ptf), out, logout)
		r := <-out
		session.Close()
		close(logout)
		<-done
		if !r.Success {
			t.Fatalf("PTF %d: run failed: %v", ptf, r.Err)
		}
		files, _ := filepath.Glob(filepath.Join(res, "V*.csv"))
		if len(files) != 1 {
			t.Fatalf("PTF %d: daily output not found in %s", ptf, res)
		}
		data, err := os.ReadFile(files[0])
		if err != nil {
			t.Fatal(err)
		}
		days, violations := 0, 0
		maxWG := 0.0
		for _, l := range strings.Split(string(data), "\n") {
			tok := strings.Split(strings.TrimSpace(l), ",")
			if len(tok) != 1+4*nLayers {
				continue
			}
			val := make([]float64, len(tok))
			ok := true
			for i := 1; i < len(tok); i++ {
				if val[i], err = strconv.ParseFloat(strings.TrimSpace(tok[i]), 64); err != nil {
					ok = false // header line
					break
				}
			}
			if !ok {
				continue
			}
			days++
			for i := 0; i < nLayers; i++ {
				w, wmin, por, wg := val[1+i], val[1+nLayers+i], val[1+2*nLayers+i], val[1+3*nLayers+i]
				if wg-por > maxWG {
					maxWG = wg - por
				}
				if !(0 < wmin && wmin < w && w <= por && por < 1) {
					if violations == 0 {
						t.Errorf("PTF %d, %s, layer %d (%d-%d cm): wilting point %.4f, field capacity %.4f, pore volume %.4f - violates 0 < WP < FC <= PV < 1",
							ptf, tok[0], i+1, i*10, (i+1)*10, wmin, w, por)
					}
					violations++
				}
			}
		}
		if days == 0 {
			t.Fatalf("PTF %d: no daily output lines", ptf)
		}
		t.Logf("PTF %d: %d days, %d layer-days with unordered parameters, largest excess of the simulated water content over the pore volume: %.4f cm3/cm3",
			ptf, days, violations, maxWG)
	}
}
