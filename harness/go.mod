module verif/harness

go 1.21

require (
	github.com/anishathalye/porcupine v1.3.0
	github.com/zalf-rpm/Hermes2Go/hermes v0.0.0
	gopkg.in/yaml.v3 v3.0.1
)

replace github.com/zalf-rpm/Hermes2Go/hermes => /repo/hermes
