package main

import (
	"fmt"
	"os"
	"path/filepath"
	"strings"
)

// =====================================================================================
// C13: alternative input formats of the same content give identical results
// =====================================================================================

// every shipped crop parameter file (code, variety); permanent crops are grown as several consecutive cuts
var c13CropFiles = [][2]string{{"AA", ""}, {"CCM", ""}, {"GR", ""}, {"K", ""}, {"LUP", ""}, {"OA", ""}, {"OEL", ""}, {"ORH", ""}, {"PH", ""}, {"SE", ""}, {"SM", ""}, {"SOY", ""},
	{"SW", ""}, {"TR", ""}, {"WG", ""}, {"WR", ""}, {"WRA", ""}, {"WRC", ""}, {"WW", ""}, {"ZR", ""}, {"SOY", "0"}, {"SOY", "00"}, {"SOY", "000"}, {"SOY", "0000"}, {"ZR", "chrnew"}, {"SOY", "i"}, {"SOY", "ii"}, {"SOY", "iii"}}

var c13Permanent = map[string]bool{"AA": true, "GR": true}

// c13Rotation rebuilds the rotation around one shipped parameter file: pre-crop, optionally one annual crop, then the target
// crop (permanent crops: 2-4 consecutive cuts, which exercises the regrowth branch of the readers), then annual crops
func c13Rotation(sc *Scenario, r *Rng, code, variety string, annualFirst float64) {
	n := 0
	if r.Bool(annualFirst) {
		n = 1
	}
	c13RotationEx(sc, r, code, variety, n, nil)
}

// c13RotationEx: nBefore annual crops are grown before the target crop; prefer (optional) filters the crops drawn for them
// (applied to the first attempts of every draw, so it steers without excluding).
func c13RotationEx(sc *Scenario, r *Rng, code, variety string, nBefore int, prefer func(ci *CropInfo) bool) {
	pre := sc.Rotation[0]
	sc.Rotation = []RotEntry{pre}
	cur := sc.Start
	before := true
	addAnnual := func() {
		ci := &cropTable[r.Intn(len(cropTable))]
		for try := 0; before && prefer != nil && try < 6 && !prefer(ci); try++ {
			ci = &cropTable[r.Intn(len(cropTable))]
		}
		sow := nextDOY(cur.AddDays(r.Range(4, 30)), r.Range(ci.SowLo, ci.SowHi))
		var harv Date
		if ci.Winter {
			harv = nextDOY(Date{sow.Y, 12, 31}, r.Range(ci.HarvLo, ci.HarvHi))
		} else {
			harv = nextDOY(sow.AddDays(40), r.Range(ci.HarvLo, ci.HarvHi))
		}
		sc.Rotation = append(sc.Rotation, RotEntry{Crop: ci.Code, Sow: sow, Harvest: harv, Rex: pickI(r, []int{0, 100, 50})})
		cur = harv
	}
	for k := 0; k < nBefore; k++ {
		addAnnual()
	}
	before = false
	if c13Permanent[code] {
		sow := nextDOY(cur.AddDays(r.Range(4, 30)), r.Range(70, 110))
		cuts := r.Range(2, 4)
		for k := 0; k < cuts; k++ {
			harv := sow.AddDays(r.Range(50, 95))
			sc.Rotation = append(sc.Rotation, RotEntry{Crop: code, Sow: sow, Harvest: harv, Rex: pickI(r, []int{0, 100})})
			cur = harv
			sow = harv.AddDays(1)
		}
	} else if ci := cropInfo(code); ci != nil {
		sow := nextDOY(cur.AddDays(r.Range(4, 30)), r.Range(ci.SowLo, ci.SowHi))
		var harv Date
		if ci.Winter {
			harv = nextDOY(Date{sow.Y, 12, 31}, r.Range(ci.HarvLo, ci.HarvHi))
		} else {
			harv = nextDOY(sow.AddDays(40), r.Range(ci.HarvLo, ci.HarvHi))
		}
		sc.Rotation = append(sc.Rotation, RotEntry{Crop: code, Variety: variety, Sow: sow, Harvest: harv, Rex: pickI(r, []int{0, 100, 50})})
		cur = harv
	} else {
		// catch / cover crops without an entry in the generator's table: sown in late summer or spring, grown 60-150 days
		sow := nextDOY(cur.AddDays(r.Range(4, 30)), pickI(r, []int{100, 120, 220, 240}))
		harv := sow.AddDays(r.Range(60, 150))
		sc.Rotation = append(sc.Rotation, RotEntry{Crop: code, Variety: variety, Sow: sow, Harvest: harv, Rex: pickI(r, []int{0, 100, 200})})
		cur = harv
	}
	for len(sc.Rotation) < 12 && cur.Zeit() <= sc.End.Zeit() {
		addAnnual()
	}
	// events of the generic generator may now fall inside a crop: keep fertiliser / irrigation, drop tillage
	sc.Till = nil
}

var c13Kinds = []string{"crop_classic_vs_yaml", "crop_classic_vs_converter_yaml", "soil_txt_vs_csv", "rotation_txt_vs_csv", "measurement_txt_vs_csv",
	"weather_per_year_vs_multi_year_csv", "weather_multi_year_csv_vs_day_of_year", "date_formats"}

// normDates rewrites the date text columns of the result files to ISO dates (only used for the date-format pairs)
func normDates(run *plainRun, sc *Scenario) {
	for name, b := range run.Files {
		lines := strings.Split(string(b), "\n")
		switch name[0] {
		case 'V', 'Y':
			for i, l := range lines {
				if i == 0 {
					continue
				}
				f := strings.Split(l, ",")
				if d, ok := parseModelDate(f[0], sc.DateFormat, sc.DivideCentury); ok {
					f[0] = d.String()
					lines[i] = strings.Join(f, ",")
				}
			}
		case 'C':
			for i, l := range lines {
				if i == 0 {
					continue
				}
				f := strings.Split(l, ",")
				if len(f) > 1 {
					if d, ok := parseModelDate(f[1], sc.DateFormat, sc.DivideCentury); ok {
						f[1] = d.String()
						lines[i] = strings.Join(f, ",")
					}
				}
			}
		case 'M':
			for i, l := range lines {
				f := strings.Split(l, ";")
				if d, ok := parseModelDate(f[0], sc.DateFormat, sc.DivideCentury); ok {
					f[0] = d.String()
					lines[i] = strings.Join(f, ";")
				}
			}
		}
		run.Files[name] = []byte(strings.Join(lines, "\n"))
	}
}

func runC13Case(tier string, seed uint64, idx int, keepDir string) *CaseResult {
	res := &CaseResult{Prop: "C13", Seed: seed, Index: idx, Status: "ok", Cov: map[string]int64{}}
	kind := c13Kinds[idx%len(c13Kinds)]
	r := NewRng(mix(mix(seed, uint64(idx)), 1313))
	p := defaultProfile()
	p.Inject = 0
	p.Measurement = 0
	p.NoneValues = 0
	p.Years = [2]int{2, 3}
	p.NoMidYearStart = kind == "weather_per_year_vs_multi_year_csv" // a per-year file holds a whole year
	cropPair := kind == "crop_classic_vs_yaml" || kind == "crop_classic_vs_converter_yaml"
	var cropFile [2]string
	if cropPair {
		// every shipped crop parameter file in turn
		cropFile = c13CropFiles[(idx/len(c13Kinds))%len(c13CropFiles)]
		p.ColdClimate = 0.1
		p.Years = [2]int{2, 4}
	}
	sc := genWithProfile("C13", seed, idx, r, p)
	if cropPair {
		c13Rotation(sc, r, cropFile[0], cropFile[1], 0.5)
	}
	sc.ResultFormat = 1
	sc.DailyCols = pairDailyCols(sc.Soil.N())
	a := sc
	var b *Scenario
	var postA, postB func(root string) []string
	desc := kind
	switch kind {
	case "crop_classic_vs_yaml":
		a.CropParamYml = false
		b = cloneScenario(a)
		b.CropParamYml = true
		desc += " crop file " + cropParamFileName(cropFile[0], cropFile[1], false)
	case "crop_classic_vs_converter_yaml":
		a.CropParamYml = false
		b = cloneScenario(a)
		b.CropParamYml = true
		files := map[string]bool{}
		for _, e := range a.Rotation {
			files[cropParamFileName(e.Crop, e.Variety, false)] = true
		}
		// "generated variants": in 40 % of the converter pairs the free-text labels of the classic files carry non-ASCII
		// letters (the numbers stay where they are, counted in characters): both runs then read these variant files
		relabel := r.Bool(0.4)
		variant := func(name string) []byte {
			b, _ := os.ReadFile(filepath.Join(paramDir, name))
			if !relabel {
				return b
			}
			lines := strings.Split(string(b), "\n")
			if len(lines) > 15 && strings.HasPrefix(lines[15], "Anfangsgewichte kg TM/ha") {
				lines[15] = strings.Replace(lines[15], "Anfangsgewichte kg TM/ha", "Anfangsgewichte für Orga", 1)
			}
			return []byte(strings.Join(lines, "\n"))
		}
		if relabel {
			res.Cov["converter_pairs_with_relabelled_classic_files"]++
			postA = func(root string) []string {
				dir := filepath.Join(root, "param_var")
				except := map[string]bool{}
				for f := range files {
					except[f] = true
				}
				linkParamFolder(dir, except)
				for f := range files {
					os.WriteFile(filepath.Join(dir, f), variant(f), 0644)
				}
				return []string{"parameter=param_var"}
			}
		}
		postB = func(root string) []string {
			dir := filepath.Join(root, "param_conv")
			except := map[string]bool{}
			for f := range files {
				except[f+".yml"] = true
				except[f] = true
			}
			linkParamFolder(dir, except)
			for f := range files {
				src := filepath.Join(dir, f)
				os.WriteFile(src, variant(f), 0644)
				if err := convertWithBinary(src, filepath.Join(dir, f+".yml")); err != nil {
					res.Err = err.Error()
				}
			}
			return []string{"parameter=param_conv"}
		}
		desc += " crop file " + cropParamFileName(cropFile[0], cropFile[1], false)
	case "soil_txt_vs_csv":
		for i := range a.Soil.Horizons {
			a.Soil.Horizons[i].BD = 0 // a measured bulk density has no column in the fixed-width file
		}
		a.Soil.CSV = false
		b = cloneScenario(a)
		b.Soil.CSV = true
	case "rotation_txt_vs_csv":
		a.RotCSV = false
		b = cloneScenario(a)
		b.RotCSV = true
	case "measurement_txt_vs_csv":
		a.MeasInit = true
		a.MeasDate = a.Start.AddDays(r.Range(0, 200))
		for i := 0; i < 6; i++ {
			a.MeasN[i] = r.Range(0, 90)
			a.MeasW[i] = float64(r.Range(5, 100)) / 100
		}
		a.MeasMode = "1"
		a.MeasShort = r.Bool(0.4) // the short table without the columns of the deeper layers
		a.MeasCSV = false
		b = cloneScenario(a)
		b.MeasCSV = true
	case "weather_per_year_vs_multi_year_csv", "weather_multi_year_csv_vs_day_of_year":
		if a.ETpot == 5 {
			a.ETpot = 3 // the reference ET column exists only in the per-year layout
		}
		a.Weather.CO2InFile = 0
		withDOY := kind == "weather_multi_year_csv_vs_day_of_year"
		if withDOY && a.Weather.NumHeader == 3 {
			a.Weather.NumHeader = 2 // the day-of-year layout has no station line
		}
		// the series must start on 1 January of the start year (a file that starts earlier is cut differently per layout)
		var days []WeatherDay
		for _, d := range a.Weather.Days {
			if d.D.Y >= a.Start.Y {
				d.NoneSun, d.NoneVerd, d.NoneTavg = false, false, false
				if withDOY {
					// the day-of-year layout derives the mean temperature from min and max: the CSV carries exactly that number
					d.Tavg = (d.Tmax + d.Tmin) / 2
				}
				days = append(days, d)
			}
		}
		// a radiation sensor that fails for a while (the sunshine hours stand in) and single missing rain records: the
		// sentinel in the required columns, on interior days of a year
		if r.Bool(0.5) {
			for i := range days {
				if doy := days[i].D.DOY(); doy < 3 || doy > 362 {
					continue
				}
				if a.Weather.HasSun && r.Bool(0.04) {
					days[i].NoneGlob = true
				}
				if r.Bool(0.01) {
					days[i].NonePrecip = true
				}
			}
			res.Cov["weather_pairs_with_sentinels_in_required_columns"]++
		}
		a.Weather.Days = days
		if withDOY {
			a.Weather.Layout = 1
			a.Weather.ExactTavg = true
			b = cloneScenario(a)
			b.Weather.Layout = 2
		} else {
			a.Weather.Layout = 0
			b = cloneScenario(a)
			b.Weather.Layout = 1
		}
	case "date_formats":
		f1 := r.Intn(4)
		f2 := (f1 + 1 + r.Intn(3)) % 4
		a.DateFormat = f1
		b = cloneScenario(a)
		b.DateFormat = f2
		desc += fmt.Sprintf(" %s vs %s", dateFormatNames[f1], dateFormatNames[f2])
	}
	root := keepDir
	var err error
	if root == "" {
		root, err = os.MkdirTemp(scratchBase, "c13")
		if err != nil {
			res.Status = "skipped"
			return res
		}
		defer os.RemoveAll(root)
	}
	if kind == "crop_classic_vs_converter_yaml" {
		if _, err := os.Stat(filepath.Join(buildDir(), "cropfileconverter")); err != nil {
			res.Status = "skipped"
			res.Err = "converter binary not built"
			return res
		}
	}
	runA := runPlain(a, filepath.Join(root, "A"), postA)
	runB := runPlain(b, filepath.Join(root, "B"), postB)
	res.Days = runA.Days
	if res.Err != "" {
		res.Status = "skipped"
		return res
	}
	if kind == "date_formats" {
		normDates(runA, a)
		normDates(runB, b)
	}
	if ok, why := compareRuns(runA, runB, nil); !ok {
		res.Violations = append(res.Violations, Violation{Prop: "C13", Sig: "encodings_differ:" + kind, Msg: fmt.Sprintf("%s: %s", desc, why)})
	}
	if runA.Status != "ok" {
		res.Cov["pairs_both_failed_alike"]++
	}
	res.Cov["pairs_"+kind]++
	if cropPair {
		res.Cov["crop_file_"+cropParamFileName(cropFile[0], cropFile[1], false)]++
		if c13Permanent[cropFile[0]] {
			res.Cov["pairs_permanent_crop_regrowth"]++
		}
	}
	res.NonTrivial = runA.Status == "ok" && runA.Days > 30
	res.Sample = map[string]interface{}{"pair": desc, "start": a.Start.String(), "end": a.End.String(), "soil_layers": a.Soil.N(), "weather_layouts": fmt.Sprintf("%d/%d", a.Weather.Layout, b.Weather.Layout)}
	return res
}

func sign(x float64) float64 {
	if x < 0 {
		return -1
	}
	return 1
}

func init() {
	caseRunners["C13"] = runC13Case
	var floors []string
	for _, k := range c13Kinds {
		floors = append(floors, "pairs_"+k)
	}
	otherChecks["C13"] = func(tier string, seed uint64) int {
		spec := checkSpec{Prop: "C13", Level: "exploration", NQuick: 2000, NThorough: 40000,
			Rule:   fmt.Sprintf("case i is a pair of kind i mod %d from %v: one generated project written in two encodings of the same content (values restricted to what both encodings can carry exactly; the crop pairs cycle through every shipped crop parameter file incl. varieties and the permanent crops grown as consecutive cuts, the converter pair runs the real cropfileconverter binary), both run through the real model, all result files compared byte for byte (12 significant digits of crop, water, N and temperature state per day; date text columns rewritten to ISO only for the date-format pairs); non-trivial = both runs completed > 30 days", len(c13Kinds), c13Kinds),
			Floors: floors}
		return runSimCheck(spec, tier, seed)
	}
}
