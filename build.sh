#!/bin/bash
# Builds the harness (tag verif) and, for the properties that need them, the real binaries from /repo.
set -eu
cd "$(dirname "$0")"
. ./env.sh
mkdir -p .build
OUT="$PWD/.build"
PROP="${1:-all}"
cp /repo/hermes/go.sum harness/go.sum.repo 2>/dev/null || true
( cd harness && go build -tags verif -o ../.build/vmon . )
case "$PROP" in C03|all) ( cd harness && go build -race -tags verif -o ../.build/vmon_race . );; esac
need_bins=0
case "$PROP" in C03|C11|C13|C17|all) need_bins=1;; esac
if [ $need_bins = 1 ]; then
  # repository binaries: workspace mode (go.work), no -mod flag
  ( cd /repo/src/hermes2go && env -u GOFLAGS GOWORK= go build -tags verif -race -o $OUT/hermes2go_race . )
  ( cd /repo/src/hermes2go && env -u GOFLAGS GOWORK= go build -tags verif -o $OUT/hermes2go . )
  ( cd /repo/src/calcHermesBatch && env -u GOFLAGS GOWORK= go build -o $OUT/calcHermesBatch . )
  ( cd /repo/src/cropfileconverter && env -u GOFLAGS GOWORK= go build -o $OUT/cropfileconverter . )
fi
