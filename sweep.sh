#!/bin/bash
# ./sweep.sh <tier> <seed> [<seed> ...]   runs every claimed check (or those named in VERIF_PROPS) at the given seeds; prints one line per (property, seed) plus any alarm lines
cd "$(dirname "$0")"
. ./env.sh
TIER="$1"; shift
PROPS="${VERIF_PROPS:-}"
[ -n "$PROPS" ] || PROPS=$(python3 -c "import json;print(' '.join(c['property_id'] for c in json.load(open('MANIFEST.json'))['checks']))")
./setup.sh >/dev/null 2>&1 || { echo "setup failed"; exit 2; }
for s in "$@"; do
  for p in $PROPS; do
    out=$(VERIF_SEED=$s ./check.sh $p $TIER 2>&1); rc=$?
    echo "$out" | grep -E "^(VIOLATION|INCONCLUSIVE|  signature)" | cut -c1-400
    echo "$out" | tail -1 | sed "s/^/[rc=$rc] /"
  done
done
