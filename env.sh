# offline Go environment for everything under /verif
export GOPROXY=off GOSUMDB=off GOTOOLCHAIN=local GOFLAGS=-mod=mod GOWORK=off
export GOCACHE="${GOCACHE:-$HOME/.cache/go-build}"
