package main

import (
	"context"
	"fmt"
	"os"
	"os/exec"
	"path/filepath"
	"regexp"
	"sort"
	"strconv"
	"strings"
	"time"
)

// =====================================================================================
// C17: cluster partitioning executes every batch line exactly once (exhaustive to a bound)
// =====================================================================================
//
// For every line count L, node count K and batch-file encoding: the real calcHermesBatch
// prints the ranges (-list) and the job-array size (-size); every printed range is handed to
// the real hermes2go (-lines a-b -logoutput) on a batch of lines that fail at the soil lookup with
// an error naming the line's own soil id (dispatch, line-range handling, result collection
// and the error summary are the real ones, and every executed line is identified by content). The multiset of executed log
// ids must be exactly {0..L-1}.

var c17Variants = []string{"lf", "lf_no_final_newline", "crlf", "lf_blank_lines", "crlf_blank_lines_no_final_newline", "lf_long_line_5k", "crlf_long_line_40k", "lf_block_aligned", "crlf_block_aligned"}

// c17AlignedEnds: byte offsets at which the line terminators of the first lines of a block-aligned file start
var c17AlignedEnds = []int{32768, 65536, 114688, 163840, 212992, 262144, 294912}

func c17BatchFile(L int, variant string, lineHead string) string {
	nl := "\n"
	if strings.HasPrefix(variant, "crlf") {
		nl = "\r\n"
	}
	var b strings.Builder
	for i := 0; i < L; i++ {
		if strings.Contains(variant, "blank") && (i%3 == 1 || i == 0) {
			b.WriteString(nl) // blank line before some lines (and at the very top)
			if i%6 == 1 {
				b.WriteString(nl) // two blank lines in a row
			}
		}
		pad := ""
		if strings.Contains(variant, "block_aligned") && i < len(c17AlignedEnds) {
			// a large file whose first line ends fall on the boundaries of power-of-two read blocks (4 KiB ... 256 KiB): the
			// line terminator is the first byte of a block (LF files) or is cut in two by it (CRLF files)
			want := c17AlignedEnds[i] - b.Len() - len(lineHead) - len(fmt.Sprintf(" soilId=X%03d", i))
			if nl == "\r\n" {
				want-- // the boundary falls between CR and LF
			}
			if want > 0 {
				pad = strings.Repeat(" ", want)
			}
		}
		if strings.Contains(variant, "long_line") && i == L/2 {
			// one line far longer than common read buffers (4 KiB / 64 KiB stay below the line scanner's own limit)
			n := 5000
			if strings.Contains(variant, "40k") {
				n = 40000
			}
			pad = strings.Repeat(" ", n)
		}
		fmt.Fprintf(&b, "%s%s soilId=X%03d", lineHead, pad, i)
		if i < L-1 || !strings.Contains(variant, "no_final_newline") {
			b.WriteString(nl)
		}
	}
	if variant == "lf_blank_lines" {
		b.WriteString(nl) // trailing blank line
	}
	return b.String()
}

// c17BigFile: a batch file of several MiB made of ordinary short lines in which, at every boundary of the list (powers of
// two from 4 KiB to 4 MiB, their 3x multiples and every whole MiB), a line terminator is placed exactly on the boundary:
// mode 0 - the terminator's last byte is the FIRST byte of the new block (CRLF: the boundary falls between CR and LF);
// mode 1 - the terminator's last byte is the LAST byte of the old block (the next line starts the new block).
// Returns the content, the number of lines and the 0-based indices of the lines whose terminator sits on a boundary.
func c17BigFile(crlf bool, mode int, lineHead string, maxBytes int) (string, int, []int) {
	nl := "\n"
	if crlf {
		nl = "\r\n"
	}
	var bounds []int
	for b := 4096; b <= maxBytes; b *= 2 {
		bounds = append(bounds, b)
		if 3*b/2 <= maxBytes {
			bounds = append(bounds, 3*b/2)
		}
	}
	for b := 1 << 20; b <= maxBytes; b += 1 << 20 {
		bounds = append(bounds, b)
	}
	sort.Ints(bounds)
	var b strings.Builder
	var aligned []int
	i := 0
	line := func(pad int) {
		fmt.Fprintf(&b, "%s%s soilId=X%06d%s", lineHead, strings.Repeat(" ", pad), i, nl)
		i++
	}
	plain := len(lineHead) + len(" soilId=X000000") + len(nl)
	last := -1
	for _, bd := range bounds {
		if bd == last {
			continue
		}
		last = bd
		// where the byte after this line's terminator must be
		end := bd + 1
		if mode == 1 {
			end = bd
		}
		if b.Len()+plain > end {
			continue
		}
		for b.Len()+2*plain <= end {
			line(0)
		}
		pad := end - b.Len() - plain
		if pad < 0 || pad > 60000 {
			continue
		}
		aligned = append(aligned, i)
		line(pad)
	}
	for k := 0; k < 7; k++ {
		line(0)
	}
	return b.String(), i, aligned
}

func runBin(timeoutSec int, dir string, bin string, args ...string) (string, error, bool) {
	ctx, cancel := context.WithTimeout(context.Background(), time.Duration(timeoutSec)*time.Second)
	defer cancel()
	cmd := exec.CommandContext(ctx, bin, args...)
	cmd.Dir = dir
	out, err := cmd.CombinedOutput()
	return string(out), err, ctx.Err() != nil
}

var reDispatch = regexp.MustCompile(`^\[(\d+)\]$`)
var reDone = regexp.MustCompile(`^\[(\d+)\] Error: `)
var reContent = regexp.MustCompile(`^\[(\d+)\] Error: .*'X(\d+)' not found`)

// c17Exec runs hermes2go on the range and returns the dispatched ids, the completed (error-reported) ids, and the summary ids.
func c17Exec(bin, dir, batch string, rng string, conc int) (dispatched, done, summary []int, contents []int, raw string, timedOut bool, err error) {
	// the options in an order that depends on the range: every option is a self-contained flag (pair), so any order on the
	// command line must execute the same lines (-lines in front of -batch as well as behind it)
	opts := [][]string{{"-module", "batch"}, {"-concurrent", strconv.Itoa(conc)}, {"-logoutput"}, {"-workingdir", dir}, {"-batch", batch}, {"-lines", rng}}
	ro := NewRng(mix(hashStr(rng), uint64(conc)+uint64(len(batch))))
	if ro.Bool(0.6) {
		for k := len(opts) - 1; k > 0; k-- {
			o := ro.Intn(k + 1)
			opts[k], opts[o] = opts[o], opts[k]
		}
	}
	var args []string
	for _, o := range opts {
		args = append(args, o...)
	}
	out, e, to := runBin(60, dir, bin, args...)
	raw = out
	if to {
		return nil, nil, nil, nil, raw, true, nil
	}
	if e != nil {
		return nil, nil, nil, nil, raw, false, e
	}
	inSummary := false
	for _, l := range strings.Split(strings.ReplaceAll(out, "\r\n", "\n"), "\n") {
		l = strings.TrimSpace(l)
		if l == "Error Summary:" {
			inSummary = true
			continue
		}
		if m := reDispatch.FindStringSubmatch(l); m != nil {
			v, _ := strconv.Atoi(m[1])
			dispatched = append(dispatched, v)
		} else if m := reDone.FindStringSubmatch(l); m != nil {
			v, _ := strconv.Atoi(m[1])
			if inSummary {
				summary = append(summary, v)
			} else {
				done = append(done, v)
				// which batch line was it: the line's own soil id comes back in the error text
				if mc := reContent.FindStringSubmatch(l); mc != nil {
					c, _ := strconv.Atoi(mc[2])
					contents = append(contents, c)
				} else {
					contents = append(contents, -1)
				}
			}
		}
	}
	return
}

func init() {
	fnProps["C17"] = func(tier string, seed uint64, shard, nshards int, begin func(string)) *FnResult {
		res := &FnResult{}
		maxL, maxK := 24, 26
		if tier == "thorough" {
			maxL, maxK = 60, 64
		}
		calc := filepath.Join(buildDir(), "calcHermesBatch")
		h2g := filepath.Join(buildDir(), "hermes2go")
		dir, err := os.MkdirTemp(scratchBase, "c17")
		if err != nil {
			return res
		}
		defer os.RemoveAll(dir)
		// one small generated project: every batch line names it with a soil id of its own that does not exist, so each run
		// ends at the soil lookup with an error that carries the line's identity
		sc := GenScenario("C17", seed, shard)
		args, err := sc.Materialize(dir, filepath.Join(dir, "res"))
		if err != nil {
			return res
		}
		lineHead := strings.Join(args, " ")
		for L := 1 + shard; L <= maxL; L += nshards {
			for _, variant := range c17Variants {
				begin(fmt.Sprintf("L=%d %s", L, variant))
				batch := filepath.Join(dir, fmt.Sprintf("batch_%d_%s.txt", L, variant))
				os.WriteFile(batch, []byte(c17BatchFile(L, variant, lineHead)), 0644)
				type execRes struct {
					ids      []int
					contents []int
					ok       bool
				}
				memo := map[string]execRes{}
				for K := 1; K <= maxK; K++ {
					res.Evals++
					desc := fmt.Sprintf("lines=%d nodes=%d encoding=%s", L, K, variant)
					sizeOut, e1, to1 := runBin(30, dir, calc, "-size", strconv.Itoa(K), "-batch", batch)
					listOut, e2, to2 := runBin(30, dir, calc, "-list", strconv.Itoa(K), "-batch", batch)
					if to1 || to2 {
						res.cov("inconclusive_timeouts", 1)
						continue
					}
					if e1 != nil || e2 != nil {
						res.violate("C17", "calculator_failed", fmt.Sprintf("%s: batch calculator failed: %v %v %s %s", desc, e1, e2, sizeOut, listOut), nil)
						continue
					}
					size, err := strconv.Atoi(strings.TrimSpace(sizeOut))
					if err != nil {
						res.violate("C17", "size_not_a_number", fmt.Sprintf("%s: -size printed %q", desc, sizeOut), nil)
						continue
					}
					toks := strings.Fields(listOut)
					crlfSig := func(s string) string {
						return s
					}
					if len(toks) != size {
						res.violate("C17", crlfSig("range_count_ne_size"), fmt.Sprintf("%s: -list printed %d ranges %q but -size reports %d", desc, len(toks), listOut, size), nil)
						continue
					}
					if size < 1 || size > K || size > L {
						res.violate("C17", crlfSig("size_out_of_range"), fmt.Sprintf("%s: job-array size %d", desc, size), nil)
						continue
					}
					// contiguous, disjoint, cover 1..L
					next := 1
					okRanges := true
					var ranges [][2]int
					for _, t := range toks {
						ab := strings.Split(t, "-")
						if len(ab) != 2 {
							okRanges = false
							break
						}
						a, ea := strconv.Atoi(ab[0])
						b, eb := strconv.Atoi(ab[1])
						if ea != nil || eb != nil || a != next || b < a {
							okRanges = false
							break
						}
						next = b + 1
						ranges = append(ranges, [2]int{a, b})
					}
					if !okRanges || next != L+1 {
						res.violate("C17", crlfSig("ranges_not_a_partition"), fmt.Sprintf("%s: ranges %q are not contiguous, disjoint and covering 1..%d", desc, listOut, L), nil)
						continue
					}
					// execute every range with the real simulator
					count := make([]int, L+50)
					execOK := true
					for _, ab := range ranges {
						key := fmt.Sprintf("%d-%d", ab[0], ab[1])
						er, have := memo[key]
						if !have {
							conc := []int{1, 2, 3, 16}[(ab[0]+ab[1]+K)%4]
							disp, done, summ, conts, raw, to, err := c17Exec(h2g, dir, batch, key, conc)
							res.cov("simulator_invocations", 1)
							if to {
								res.cov("inconclusive_timeouts", 1)
								er = execRes{nil, nil, false}
							} else if err != nil {
								res.violate("C17", "simulator_failed", fmt.Sprintf("%s: hermes2go -lines %s failed: %v\n%s", desc, key, err, lastLines(raw, 5)), nil)
								er = execRes{nil, nil, false}
							} else {
								if !sameMultiset(disp, done) || !sameMultiset(disp, summ) {
									res.violate("C17", "dispatch_result_mismatch", fmt.Sprintf("%s: -lines %s dispatched %v, reported %v, error summary lists %v", desc, key, disp, done, summ), nil)
								}
								// the range option itself: lines a..b <=> ids a-1..b-1
								want := []int{}
								for i := ab[0] - 1; i <= ab[1]-1 && i < L; i++ {
									want = append(want, i)
								}
								if !sameMultiset(disp, want) {
									res.violate("C17", "line_range_executes_wrong_lines", fmt.Sprintf("%s: -lines %s executed ids %v, expected %v", desc, key, disp, want), nil)
								}
								// ... and they must be exactly the batch lines number a..b (by content, not only by log id)
								if !sameMultiset(conts, want) {
									res.violate("C17", "line_range_executes_wrong_content", fmt.Sprintf("%s: -lines %s executed the batch lines %v (-1 = an entry that is not a batch line), expected lines %v", desc, key, conts, want), nil)
								}
								er = execRes{disp, conts, true}
							}
							memo[key] = er
						}
						if !er.ok {
							execOK = false
							continue
						}
						for _, id := range er.contents {
							if id >= 0 && id < len(count) {
								count[id]++
							} else {
								count[len(count)-1]++ // an executed entry that is not one of the batch lines
							}
						}
					}
					if !execOK {
						continue
					}
					bad := ""
					for i := 0; i < len(count); i++ {
						want := 0
						if i < L {
							want = 1
						}
						if count[i] != want {
							bad += fmt.Sprintf(" batch line %d executed %d times;", i, count[i])
						}
					}
					if bad != "" {
						res.violate("C17", crlfSig("lines_not_executed_exactly_once"), fmt.Sprintf("%s: ranges %q:%s", desc, listOut, bad), nil)
						continue
					}
					res.NonTrivial++
					res.cov("pairs_lines_nodes_ok", 1)
					if L < K {
						res.cov("pairs_fewer_lines_than_nodes", 1)
					}
					if L%K != 0 && L > K {
						res.cov("pairs_with_remainder", 1)
					}
					res.cov("encoding_"+variant, 1)
					if K == 3 && variant == "crlf_blank_lines_no_final_newline" {
						res.sample(map[string]interface{}{"lines": L, "nodes": K, "encoding": variant, "list": listOut, "size": size})
					}
				}
			}
		}

		// big files: several MiB of ordinary lines with line terminators placed exactly on the boundaries of every plausible
		// read block (4 KiB ... 4 MiB, 3x multiples, whole MiB); the calculator must count them, and the ranges that contain a
		// boundary line (plus the first and the last range) are executed by the simulator and identified by content
		maxBytes := 4<<20 + 8192
		if tier == "thorough" {
			maxBytes = 16<<20 + 8192
		}
		for bi := 0; bi < 4; bi++ {
			if bi%nshards != shard {
				continue
			}
			crlf, mode := bi&1 == 1, bi>>1
			variant := fmt.Sprintf("big_%s_mode%d", map[bool]string{false: "lf", true: "crlf"}[crlf], mode)
			begin(variant)
			content, L, aligned := c17BigFile(crlf, mode, lineHead, maxBytes)
			batch := filepath.Join(dir, "batch_"+variant+".txt")
			os.WriteFile(batch, []byte(content), 0644)
			content = ""
			var execRanges [][2]int
			for _, K := range []int{1, 2, 3, 7, 64, 1000, L / 16, L - 1, L, L + 1} {
				res.cov("big_file_evaluations", 1)
				desc := fmt.Sprintf("lines=%d nodes=%d encoding=%s (%d line ends on block boundaries)", L, K, variant, len(aligned))
				sizeOut, e1, to1 := runBin(60, dir, calc, "-size", strconv.Itoa(K), "-batch", batch)
				listOut, e2, to2 := runBin(60, dir, calc, "-list", strconv.Itoa(K), "-batch", batch)
				if to1 || to2 {
					res.cov("inconclusive_timeouts", 1)
					continue
				}
				if e1 != nil || e2 != nil {
					res.violate("C17", "calculator_failed", fmt.Sprintf("%s: batch calculator failed: %v %v", desc, e1, e2), nil)
					continue
				}
				size, err := strconv.Atoi(strings.TrimSpace(sizeOut))
				toks := strings.Fields(listOut)
				if err != nil || len(toks) != size {
					res.violate("C17", "range_count_ne_size", fmt.Sprintf("%s: -list printed %d ranges but -size reports %q", desc, len(toks), strings.TrimSpace(sizeOut)), nil)
					continue
				}
				next, okRanges := 1, true
				var ranges [][2]int
				for _, t := range toks {
					ab := strings.Split(t, "-")
					if len(ab) != 2 {
						okRanges = false
						break
					}
					a, ea := strconv.Atoi(ab[0])
					b, eb := strconv.Atoi(ab[1])
					if ea != nil || eb != nil || a != next || b < a {
						okRanges = false
						break
					}
					next = b + 1
					ranges = append(ranges, [2]int{a, b})
				}
				if !okRanges || next != L+1 {
					first, lastTok := "", ""
					if len(toks) > 0 {
						first, lastTok = toks[0], toks[len(toks)-1]
					}
					res.violate("C17", "ranges_not_a_partition", fmt.Sprintf("%s: the %d ranges (%s ... %s) are not contiguous, disjoint and covering 1..%d", desc, len(toks), first, lastTok, L), nil)
					continue
				}
				res.cov("big_file_partitions_ok", 1)
				if K == L/16 {
					pick := map[int]bool{0: true, len(ranges) - 1: true}
					for _, al := range aligned {
						for ri, ab := range ranges {
							if al+1 >= ab[0]-1 && al+1 <= ab[1]+1 {
								pick[ri] = true
							}
						}
					}
					for ri := range ranges {
						if pick[ri] {
							execRanges = append(execRanges, ranges[ri])
						}
					}
				}
			}
			for _, ab := range execRanges {
				key := fmt.Sprintf("%d-%d", ab[0], ab[1])
				desc := fmt.Sprintf("lines=%d encoding=%s", L, variant)
				disp, done, summ, conts, raw, to, err := c17Exec(h2g, dir, batch, key, []int{1, 2, 3, 16}[(ab[0]+ab[1])%4])
				res.cov("simulator_invocations", 1)
				if to {
					res.cov("inconclusive_timeouts", 1)
					continue
				}
				if err != nil {
					res.violate("C17", "simulator_failed", fmt.Sprintf("%s: hermes2go -lines %s failed: %v\n%s", desc, key, err, lastLines(raw, 5)), nil)
					continue
				}
				want := []int{}
				for i := ab[0] - 1; i <= ab[1]-1 && i < L; i++ {
					want = append(want, i)
				}
				if !sameMultiset(disp, done) || !sameMultiset(disp, summ) {
					res.violate("C17", "dispatch_result_mismatch", fmt.Sprintf("%s: -lines %s dispatched %v, reported %v, error summary lists %v", desc, key, disp, done, summ), nil)
				} else if !sameMultiset(disp, want) {
					res.violate("C17", "line_range_executes_wrong_lines", fmt.Sprintf("%s: -lines %s executed ids %v, expected %v", desc, key, disp, want), nil)
				} else if !sameMultiset(conts, want) {
					res.violate("C17", "line_range_executes_wrong_content", fmt.Sprintf("%s: -lines %s executed the batch lines %v (-1 = an entry that is not a batch line), expected lines %v", desc, key, conts, want), nil)
				} else {
					res.cov("big_file_ranges_executed_ok", 1)
				}
			}
			os.Remove(batch)
		}
		return res
	}

	otherChecks["C17"] = func(tier string, seed uint64) int {
		t0 := time.Now()
		for _, b := range []string{"calcHermesBatch", "hermes2go"} {
			if _, err := os.Stat(filepath.Join(buildDir(), b)); err != nil {
				fmt.Println("INCONCLUSIVE: binary not built:", b)
				return 2
			}
		}
		rs := runFnSharded("C17", tier, seed, fnShards["C17"], 3000)
		cases, inc := fnToCases("C17", seed, rs, func(r *FnResult) string { return "crash:partition_engine" })
		maxL, maxK := 24, 26
		if tier == "thorough" {
			maxL, maxK = 60, 64
		}
		total := int64(maxL * maxK * len(c17Variants))
		spec := checkSpec{Prop: "C17", Level: "exploration",
			Rule:     fmt.Sprintf("exhaustive to the bound: every line count 1..%d x node count 1..%d x batch-file encoding %v; for each the real calcHermesBatch -list/-size output is checked (contiguous, disjoint, covering, count = size) and every printed range is executed by the real hermes2go -lines a-b at concurrency 1/2/3/16 on instantly failing lines; the multiset of executed log ids must be {0..L-1}; plus four files of 4 MiB (thorough 16 MiB) whose line ends sit exactly on / just before every power-of-two block boundary from 4 KiB up, partitioned for 10 node counts, with the ranges around the boundary lines executed and identified by content; evaluations = (lines, nodes, encoding) triples, non-trivial = triples whose ranges were all executed and verified", maxL, maxK, c17Variants),
			Floors:   []string{"pairs_lines_nodes_ok", "pairs_fewer_lines_than_nodes", "pairs_with_remainder", "simulator_invocations", "big_file_partitions_ok", "big_file_ranges_executed_ok"},
			FloorMin: map[string]int64{"pairs_lines_nodes_ok": total}}
		extra := map[string]interface{}{"exhaustive": true, "bound_lines": maxL, "bound_nodes": maxK, "encodings": c17Variants}
		return finishCheck(spec, tier, seed, cases, inc, t0, extra)
	}
}

func sameMultiset(a, b []int) bool {
	if len(a) != len(b) {
		return false
	}
	m := map[int]int{}
	for _, x := range a {
		m[x]++
	}
	for _, x := range b {
		m[x]--
	}
	for _, v := range m {
		if v != 0 {
			return false
		}
	}
	return true
}

func lastLines(s string, n int) string {
	ls := strings.Split(strings.TrimRight(s, "\n"), "\n")
	if len(ls) > n {
		ls = ls[len(ls)-n:]
	}
	return strings.Join(ls, " | ")
}
