package hermes

// Evidence for the NEGATIVE result of the C17 bug hunt: an exhaustive end-to-end
// check of the cluster partitioning with the real command line tools.
// It PASSES on the unchanged code (no violation of the property was found).
//
// copy into hermes/ and run:  go test -vet=off -count=1 -run TestC17PartitionExhaustive .

import (
	"fmt"
	"math/rand"
	"os"
	"os/exec"
	"path/filepath"
	"regexp"
	"strconv"
	"strings"
	"testing"
)

func c17Build(t *testing.T, srcDir, out string) {
	cmd := exec.Command("go", "build", "-o", out, ".")
	cmd.Dir = srcDir
	cmd.Env = append(os.Environ(), "GOPROXY=off", "GOSUMDB=off", "GOTOOLCHAIN=local", "GOFLAGS=")
	if b, err := cmd.CombinedOutput(); err != nil {
		t.Fatalf("build %s: %v\n%s", srcDir, err, b)
	}
}

func TestC17PartitionExhaustive(t *testing.T) {
	const maxLines, maxNodes = 10, 12
	wd, _ := os.Getwd()
	root := filepath.Dir(wd)
	tmp := t.TempDir()
	calc := filepath.Join(tmp, "calc")
	sim := filepath.Join(tmp, "h2g")
	c17Build(t, filepath.Join(root, "src", "calcHermesBatch"), calc)
	c17Build(t, filepath.Join(root, "src", "hermes2go"), sim)

	rnd := rand.New(rand.NewSource(17))
	logIDre := regexp.MustCompile(`(?m)^\[(\d+)\]$`)
	run := func(bin string, args ...string) string {
		cmd := exec.Command(bin, args...)
		cmd.Dir = tmp
		b, _ := cmd.Output()
		return string(b)
	}
	for _, eol := range []string{"\n", "\r\n"} {
		for l := 1; l <= maxLines; l++ {
			// l non-empty lines (they fail fast: no project= argument), random blank lines,
			// with and without a final line terminator
			var sb strings.Builder
			for i := 0; i < l; i++ {
				for rnd.Intn(3) == 0 {
					sb.WriteString(eol)
				}
				sb.WriteString(fmt.Sprintf("id=%d", i))
				if i < l-1 || rnd.Intn(3) > 0 {
					sb.WriteString(eol)
				}
			}
			for rnd.Intn(3) == 0 {
				sb.WriteString(eol)
			}
			batch := filepath.Join(tmp, "batch.txt")
			if err := os.WriteFile(batch, []byte(sb.String()), 0o644); err != nil {
				t.Fatal(err)
			}
			for k := 1; k <= maxNodes; k++ {
				size := run(calc, "-size", strconv.Itoa(k), "-batch", batch)
				list := run(calc, "-list", strconv.Itoa(k), "-batch", batch)
				ranges := strings.Split(list, " ")
				if strconv.Itoa(len(ranges)) != size {
					t.Errorf("eol=%q lines=%d nodes=%d: size %q but list %q", eol, l, k, size, list)
				}
				next := 1
				var executed []string
				for _, r := range ranges {
					var a, b int
					if _, err := fmt.Sscanf(r, "%d-%d", &a, &b); err != nil || a != next || b < a {
						t.Errorf("eol=%q lines=%d nodes=%d: bad/non-contiguous range %q in %q", eol, l, k, r, list)
					}
					next = b + 1
					out := run(sim, "-module", "batch", "-batch", batch, "-lines", r, "-logoutput")
					for _, m := range logIDre.FindAllStringSubmatch(out, -1) {
						executed = append(executed, m[1])
					}
				}
				if next != l+1 {
					t.Errorf("eol=%q lines=%d nodes=%d: ranges %q end at %d", eol, l, k, list, next-1)
				}
				var want []string
				for i := 0; i < l; i++ {
					want = append(want, strconv.Itoa(i))
				}
				if strings.Join(executed, ",") != strings.Join(want, ",") {
					t.Errorf("eol=%q lines=%d nodes=%d list=%q: executed log ids %v, want %v", eol, l, k, list, executed, want)
				}
			}
		}
	}
}
