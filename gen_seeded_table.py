#!/usr/bin/env python3
"""Rewrites section 11.5 of DESIGN.md from /verif/seeded/*/meta.json."""
import json, glob, os
rows = []
for d in sorted(glob.glob('/verif/seeded/*/meta.json')):
    m = json.load(open(d)); n = os.path.basename(os.path.dirname(d))
    rows.append(tuple(str(x).replace('|', '\\|') for x in (n, m['property'], m['summary'], m['needs'], m.get('detection', ''))))
out = ["\n### 11.5 Seeded changes (independent sub-agents, property text only) and which check catches them\n",
 "Each change compiles, keeps the 1610 stable-pass tests green (mut_baseline.sh), comes with a demonstration that fails with it and passes",
 "without it (re-run by me: mut_verify.sh / the demo script), and was applied to /repo only for the duration of `seeded_eval.sh <name> quick`.\n",
 "| seeded change | property | what it does | needs | verdict of the quick tier |", "|---|---|---|---|---|"]
out += ["| %s | %s | %s | %s | %s |" % r for r in rows]
out.append("\nMisses were never accepted: each one was traced to a blind spot of the generator (a mode, edge or schedule it never drew), the generator was widened, the unchanged tree re-swept at several seeds, and the seeded change re-evaluated. Two of the widenings exposed genuine defects of the unchanged code (F27, F28).\n")
s = open('/verif/DESIGN.md').read()
i = s.find('\n### 11.5 Seeded changes')
if i >= 0: s = s[:i]
open('/verif/DESIGN.md', 'w').write(s.rstrip('\n') + '\n' + '\n'.join(out))
print(len(rows), "seeded changes")
