package main

import (
	"fmt"
	"strconv"
	"time"

	"github.com/zalf-rpm/Hermes2Go/hermes"
)

// =====================================================================================
// C12: date conversion is a calendar-correct, order-preserving bijection  (exhaustive)
// =====================================================================================
//
// Every calendar date 1901-01-01 .. 2099-12-31 x 4 formats x separator variants {none . / -}
// x (short formats) century splits that keep the year unambiguous is pushed through the real
// DateConverter -> KalenderConverter / KalenderDate and compared with Go's time package.
// Shards = blocks of years; a log.Fatal of the converter kills the shard and is reported.

var dateSeps = []string{"", ".", "/", "-"}

// datePads: white space around a date field
var datePads = [][2]string{{" ", ""}, {"", " "}, {" ", " "}, {"\t", "\t"}, {"  ", ""}}

func c12Cents(tier string, yr int, r *Rng) []int {
	// century splits for which a two-digit year decodes to 1900+yr
	yy := yr % 100
	lo, hi := 0, yy // yr < 100: cent in [0, yy]
	if yr >= 100 {
		lo, hi = yy+1, 100
	}
	if tier == "thorough" {
		var cs []int
		for c := lo; c <= hi; c++ {
			cs = append(cs, c)
		}
		return cs
	}
	cs := []int{lo, hi}
	for k := 0; k < 3 && hi-lo > 1; k++ {
		cs = append(cs, lo+1+r.Intn(hi-lo-1))
	}
	return cs
}

func init() {
	fnProps["C12"] = func(tier string, seed uint64, shard, nshards int, begin func(string)) *FnResult {
		res := &FnResult{}
		r := NewRng(mix(seed, uint64(shard)+12))
		formats := []hermes.DateFormat{hermes.DateDEshort, hermes.DateDElong, hermes.DateENshort, hermes.DateENlong}
		for year := 1901 + shard; year <= 2099; year += nshards {
			begin(fmt.Sprintf("year %d", year))
			yr := year - 1900
			for fi, f := range formats {
				short := f == hermes.DateDEshort || f == hermes.DateENshort
				cents := []int{0}
				if short {
					cents = c12Cents(tier, yr, r)
				} else if tier == "thorough" {
					cents = []int{0, 50, 100} // must be irrelevant for the long formats
				}
				for _, cent := range cents {
					conv := hermes.DateConverter(cent, f)
					// the converter a run builds from its configuration (date format and century split given as settings) must
					// be the same function: every second (format, split) pair, and every pair with an extreme split (0, 99, 100), is enumerated through it
					if cent == 0 || cent >= 99 || (year+fi+cent)%2 == 0 {
						g := hermes.NewGlobalVarsMain()
						hp := hermes.NewHermesFilePath(scratchBase, "no_such_project", "0", "", "")
						end := FmtDateSep(Date{year, 12, 31}, fi, "")
						hermes.VerifReadConfig(&g, map[string]string{"Dateformat": strconv.Itoa(fi), "DivideCentury": strconv.Itoa(cent), "EndDate": end}, &hp)
						if g.Datum != nil {
							conv = g.Datum
							res.cov("format_split_pairs_through_the_configuration", 1)
						}
					}
					prevNum := -1
					for d := (Date{year, 1, 1}); d.Y == year; d = d.AddDays(1) {
						t := d.T()
						wantNum := int(t.Sub(epoch).Hours()/24 + 0.5)
						wantDOY := t.YearDay()
						for _, sep := range dateSeps {
							text := FmtDateSep(d, fi, sep)
							doy, num := conv(text)
							res.Evals++
							if num != wantNum || doy != wantDOY {
								res.violate("C12", "text_to_number", fmt.Sprintf("format %s split %d: %q -> day number %d, day of year %d; calendar says %d, %d", dateFormatNames[fi], cent, text, num, doy, wantNum, wantDOY), nil)
								continue
							}
							back := hermes.KalenderConverter(f, sep)(num)
							if back != text {
								res.violate("C12", "number_to_text", fmt.Sprintf("format %s split %d: %q -> %d -> %q", dateFormatNames[fi], cent, text, num, back), nil)
							}
							// the same text with blanks / tabs around it, as it arrives from a comma-separated input file: the same day
							for _, pad := range datePads {
								pdoy, pnum := conv(pad[0] + text + pad[1])
								res.Evals++
								if pnum != wantNum || pdoy != wantDOY {
									res.violate("C12", "padded_text_to_number", fmt.Sprintf("format %s split %d: %q -> day number %d, day of year %d; calendar says %d, %d", dateFormatNames[fi], cent, pad[0]+text+pad[1], pnum, pdoy, wantNum, wantDOY), nil)
									break
								}
							}
							// the middle field right-aligned with a blank instead of a zero ("11. 5.1990", "11 51990"): the same day
							if mi := 2 + len(sep); text[mi] == '0' {
								bt := text[:mi] + " " + text[mi+1:]
								bdoy, bnum := conv(bt)
								res.Evals++
								if bnum != wantNum || bdoy != wantDOY {
									res.violate("C12", "blank_padded_field_to_number", fmt.Sprintf("format %s split %d: %q -> day number %d, day of year %d; calendar says %d, %d", dateFormatNames[fi], cent, bt, bnum, bdoy, wantNum, wantDOY), nil)
								}
							}
							if sep == "" {
								if prevNum >= 0 && num != prevNum+1 {
									res.violate("C12", "not_consecutive", fmt.Sprintf("format %s: %q has day number %d but the day before had %d", dateFormatNames[fi], text, num, prevNum), nil)
								}
								prevNum = num
							}
						}
						y, m, dd := hermes.KalenderDate(wantNum)
						if y != d.Y || m != d.M || dd != d.D {
							res.violate("C12", "number_to_date", fmt.Sprintf("day number %d -> %04d-%02d-%02d, calendar says %s", wantNum, y, m, dd, d), nil)
						}
					}
					// call history: a run keeps ONE converter of each direction for its whole life and asks it for days in the order of
					// its input files and events, not in calendar order. The conversion is a function of its argument: the same
					// converters are asked for the days of this year backwards, in zig-zag around every month change and in random
					// jumps (also into other years), and every answer must be the one a fresh converter gives by the calendar
					if cent == cents[0] {
						first, last := (Date{year, 1, 1}).Zeit(), (Date{year, 12, 31}).Zeit()
						// a date of a neighbouring year is only asked when this split decodes its two-digit year to that year
						decodable := func(y int) bool {
							if !short {
								return true
							}
							if y < 2000 {
								return cent <= y%100
							}
							return cent > y%100
						}
						for _, sep := range dateSeps {
							kal := hermes.KalenderConverter(f, sep)
							ask := func(n int, how string) bool {
								if n < 1 || n > (Date{2099, 12, 31}).Zeit() {
									return true
								}
								d := DateOfZeit(n)
								want := FmtDateSep(d, fi, sep)
								got := kal(n)
								res.Evals++
								res.cov("conversions_in_non_calendar_order", 1)
								if got != want {
									res.violate("C12", "number_to_text_depends_on_call_order", fmt.Sprintf("format %s separator %q, %s: day number %d -> %q, calendar says %q", dateFormatNames[fi], sep, how, n, got, want), nil)
									return false
								}
								if d.Y == year {
									if doy, num := conv(want); num != n || doy != d.DOY() {
										res.violate("C12", "text_to_number_depends_on_call_order", fmt.Sprintf("format %s split %d, %s: %q -> day number %d, day of year %d; calendar says %d, %d", dateFormatNames[fi], cent, how, want, num, doy, n, d.DOY()), nil)
										return false
									}
								}
								return true
							}
							ok := true
							for n := last + 1; n >= first-1 && ok; n-- {
								ok = ask(n, "asked backwards (after the following day)")
							}
							for m := 1; m <= 12 && ok; m++ {
								s := (Date{year, m, 1}).Zeit()
								for _, off := range []int{0, -1, 0, 27, -1, -2, 1, 30, 0, -1, 14, -1, 31, 0, 28, -1, -31, -1, 59, -1} {
									if ok = ask(s+off, "asked in zig-zag around a month change"); !ok {
										break
									}
								}
							}
							// pairs: the answer for a text may not depend on the text asked directly before. Every pair of days up to 45 days
							// apart whose first day lies in the last twelve days of a month (so that the pair straddles a month or the
							// year change), in both orders, through the long-lived text->number converter
							if sep == "" || sep == dateSeps[1+(year+fi)%3] {
								for m := 1; m <= 12 && ok; m++ {
									for dd := 20; dd <= 31 && ok; dd++ {
										a := Date{year, m, dd}
										if a.T().Month() != time.Month(m) {
											continue
										}
										for k := 1; k <= 45 && ok; k++ {
											b := a.AddDays(k)
											if b.Y > 2099 || !decodable(b.Y) {
												continue
											}
											for o := 0; o < 2 && ok; o++ {
												x, y := a, b
												if o == 1 {
													x, y = b, a
												}
												conv(FmtDateSep(x, fi, sep))
												doy, num := conv(FmtDateSep(y, fi, sep))
												res.Evals++
												res.cov("conversions_directly_after_a_nearby_date", 1)
												if num != y.Zeit() || doy != y.DOY() {
													res.violate("C12", "text_to_number_depends_on_call_order", fmt.Sprintf("format %s split %d: %q asked directly after %q -> day number %d, day of year %d; calendar says %d, %d", dateFormatNames[fi], cent, FmtDateSep(y, fi, sep), FmtDateSep(x, fi, sep), num, doy, y.Zeit(), y.DOY()), nil)
													ok = false
												}
											}
										}
									}
								}
							}
							cur := first + r.Intn(last-first+1)
							for k := 0; k < 400 && ok; k++ {
								switch r.Intn(6) {
								case 0:
									cur = first + r.Intn(last-first+1)
								case 1:
									cur = 1 + r.Intn((Date{2099, 12, 31}).Zeit())
								case 2:
									cur -= 1 + r.Intn(3)
								case 3:
									cur += 1 + r.Intn(3)
								case 4:
									cur -= 25 + r.Intn(10)
								default:
									cur += 25 + r.Intn(10)
								}
								ok = ask(cur, "asked in random jumps")
							}
						}
					}
					res.cov(fmt.Sprintf("format_%s_year_split_pairs", dateFormatNames[fi]), 1)
				}
			}
			// leap years are exactly the years divisible by four: 29 February exists <=> year%4==0, and the year length follows
			_, n1 := hermes.DateConverter(0, hermes.DateDElong)(fmt.Sprintf("0101%04d", year))
			_, n2 := hermes.DateConverter(0, hermes.DateDElong)(fmt.Sprintf("3112%04d", year))
			wantLen := 365
			if year%4 == 0 {
				wantLen = 366
				res.cov("leap_years", 1)
			}
			if n2-n1+1 != wantLen || (time.Date(year, 12, 31, 0, 0, 0, 0, time.UTC).YearDay() != wantLen) {
				res.violate("C12", "year_length", fmt.Sprintf("year %d spans %d day numbers, expected %d", year, n2-n1+1, wantLen), nil)
			}
			// year change: 31 December and 1 January of the next year are consecutive
			if year < 2099 {
				_, n3 := hermes.DateConverter(0, hermes.DateDElong)(fmt.Sprintf("0101%04d", year+1))
				if n3 != n2+1 {
					res.violate("C12", "not_consecutive", fmt.Sprintf("31.12.%d has day number %d, 01.01.%d has %d", year, n2, year+1, n3), nil)
				}
			}
			res.cov("years", 1)
			res.cov("dates", int64(wantLen))
			res.NonTrivial += int64(wantLen)
			if year == 1901+shard {
				res.sample(map[string]interface{}{"year": year, "formats": dateFormatNames, "separators": dateSeps, "example": FmtDateSep(Date{year, 2, 28}, 0, "."), "short_format_century_splits": c12Cents(tier, yr, NewRng(1))})
			}
		}
		return res
	}
	otherChecks["C12"] = func(tier string, seed uint64) int {
		t0 := time.Now()
		rs := runFnSharded("C12", tier, seed, fnShards["C12"], 1200)
		cases, inc := fnToCases("C12", seed, rs, func(r *FnResult) string { return "crash:date_conversion" })
		spec := checkSpec{Prop: "C12", Level: "exploration",
			Rule:   "every calendar date 1901-01-01..2099-12-31 x 4 date formats x separators {none . / -} x century splits that keep a two-digit year unambiguous (quick: lowest, highest and three random admissible splits per year; thorough: every admissible split 0..100) through the real DateConverter / KalenderConverter / KalenderDate (each text also with blanks / tabs around it, as a comma-separated file delivers it, and with a blank-padded middle field), compared with Go's time package; the long-lived converters of each direction are additionally asked for every day of every year backwards, in zig-zag around each month change and in random jumps, and every pair of dates up to 45 days apart that straddles a month or year change is asked back to back in both orders (the answer may not depend on what was asked before); evaluations = text->number conversions, distinct_nontrivial = distinct calendar dates enumerated (all of them are leap-year / month-boundary relevant by construction of the oracle)",
			Floors: []string{"years", "dates", "leap_years", "conversions_in_non_calendar_order", "conversions_directly_after_a_nearby_date"}, FloorMin: map[string]int64{"years": 199, "dates": 72683, "leap_years": 49}}
		extra := map[string]interface{}{"exhaustive": true, "explanation": "the date range of the property is enumerated completely (72,684 dates by the calendar oracle: 199 years x 365 + 49 leap days) in both tiers; tiers differ only in the number of century splits tried for the short formats"}
		return finishCheck(spec, tier, seed, cases, inc, t0, extra)
	}
}
