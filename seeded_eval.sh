#!/bin/bash
# ./seeded_eval.sh <seeded-dir-name> [tier] [check ...]
# Evaluates a seeded change WITHOUT touching /repo: makes a scratch git worktree of /repo's HEAD under /tmp, applies
# /verif/seeded/<name>/patch.diff there, points the checks at it (VERIF_REPO/VERIF_BUILD/VERIF_EVIDENCE_DIR/
# VERIF_REPLAY_DIR), prints their verdict lines and removes the worktree with its build output.
# Several evaluations may run in parallel, also next to checks of the unchanged tree.
set -u
cd "$(dirname "$0")"
NAME="$1"; TIER="${2:-quick}"; shift; shift || true
DIR="$PWD/seeded/$NAME"
[ -f "$DIR/patch.diff" ] || { echo "no $DIR/patch.diff"; exit 2; }
CHECKS="$*"
if [ -z "$CHECKS" ]; then CHECKS=$(python3 -c "import json;print(json.load(open('$DIR/meta.json'))['property'])"); fi
WT=$(mktemp -d /tmp/seedwt.XXXXXX)
cleanup() { git -C /repo worktree remove --force "$WT/repo" >/dev/null 2>&1; rm -rf "$WT"; git -C /repo worktree prune; }
trap cleanup EXIT
git -C /repo worktree add --detach -q "$WT/repo" HEAD || { echo "cannot create worktree"; exit 2; }
git -C "$WT/repo" apply "$DIR/patch.diff" || { echo "patch does not apply"; exit 2; }
export VERIF_REPO="$WT/repo" VERIF_BUILD="$WT/build" VERIF_EVIDENCE_DIR="$WT/evidence" VERIF_REPLAY_DIR="$WT/replays"
for c in $CHECKS; do
  out=$(./check.sh $c $TIER 2>&1); rc=$?
  echo "== $NAME: check $c $TIER exit=$rc"
  echo "$out" | grep -E "^(VIOLATION|INCONCLUSIVE|  signature)" | cut -c1-300 | head -6
  echo "$out" | tail -1 | cut -c1-200
done
