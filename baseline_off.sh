#!/bin/bash
# Runs the repository's pinned test suite with the verif guard OFF and compares the
# set of passing tests with /root/.vp/BASELINE.json (stable_pass). Exit 0 iff every
# stable-pass test still passes.
set -u
export GOPROXY=off GOSUMDB=off GOTOOLCHAIN=local
unset GOFLAGS
MODS="./hermes ./src/calcHermesBatch ./src/calcSoil ./src/climatefileconverter ./src/cropfileconverter ./src/hermes2go ./src/hermes_service ./src/hermes_service/capnp/hermes_service_capnp ./src/producer_consumer ./src/ptf_testing ./src/renderservice ./src/verify_project"
OUT=$(mktemp /tmp/verif_baseline.XXXXXX.json)
for m in $MODS; do
  ( cd /repo/$m || exit 0
    gw=$(go env GOWORK 2>/dev/null); MF=""
    if [ -z "$gw" ] || [ "$gw" = off ]; then MF="-mod=mod"; fi
    go test $MF -json -vet=off -count=1 -timeout 25m ./... ) >> "$OUT" 2>/dev/null
done
python3 - "$OUT" <<'PY'
import json,sys
passed=set()
for l in open(sys.argv[1]):
    try: e=json.loads(l)
    except Exception: continue
    if e.get('Action')=='pass' and e.get('Test'):
        passed.add(e['Package']+'::'+e['Test'])
try:
    base=json.load(open('/root/.vp/BASELINE.json'))['stable_pass']
except Exception:
    base=None
print("passed tests:",len(passed))
if base is not None:
    missing=[t for t in base if t not in passed]
    print("baseline stable_pass:",len(base),"missing:",len(missing))
    for t in missing[:20]: print("MISSING",t)
    sys.exit(1 if missing else 0)
sys.exit(0 if len(passed)>=1610 else 1)
PY
rc=$?
rm -f "$OUT"
exit $rc
