package main

import (
	"fmt"
	"os"
	"reflect"
	"strconv"
	"strings"

	"github.com/zalf-rpm/Hermes2Go/hermes"
)

// monDump: triage helper. VERIF_DUMP="site:from:to:VAR,VAR[i],VAR[i][j]" prints variables of the run state.
type monDump struct {
	site     string
	from, to int
	vars     []string
}

func newMonDump() *monDump {
	spec := os.Getenv("VERIF_DUMP")
	if spec == "" {
		return nil
	}
	p := strings.SplitN(spec, ":", 4)
	if len(p) != 4 {
		return nil
	}
	m := &monDump{site: p[0]}
	m.from, _ = strconv.Atoi(p[1])
	m.to, _ = strconv.Atoi(p[2])
	m.vars = strings.Split(p[3], ",")
	return m
}

func (m *monDump) Event(ev *hermes.VerifEvent, rc *RunCtx) {
	if ev.Site != m.site || ev.G == nil {
		return
	}
	off := ev.Zeit - rc.Sc.Start.Zeit()
	if off < m.from || off > m.to {
		return
	}
	var b strings.Builder
	fmt.Fprintf(&b, "DUMP %s %s sub=%d", ev.Site, DateOfZeit(ev.Zeit), ev.Subd)
	v := reflect.ValueOf(ev.G).Elem()
	for _, name := range m.vars {
		base := name
		var idx []int
		for strings.Contains(base, "[") {
			k := strings.Index(base, "[")
			e := strings.Index(base, "]")
			i, _ := strconv.Atoi(base[k+1 : e])
			idx = append(idx, i)
			base = base[:k] + base[e+1:]
		}
		f := v
		if strings.HasPrefix(base, "N.") && ev.N != nil {
			f = reflect.ValueOf(ev.N).Elem()
			base = base[2:]
		}
		for _, part := range strings.Split(base, ".") {
			f = f.FieldByName(part)
			if !f.IsValid() {
				break
			}
		}
		if !f.IsValid() {
			fmt.Fprintf(&b, " %s=?", name)
			continue
		}
		for _, i := range idx {
			f = f.Index(i)
		}
		fmt.Fprintf(&b, " %s=%v", name, f.Interface())
	}
	fmt.Fprintln(os.Stderr, b.String())
}
func (m *monDump) Finish(rc *RunCtx) {}
