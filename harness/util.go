package main

import (
	"fmt"
	"math"
	"time"
)

// ---------- deterministic PRNG (splitmix64), independent of the Go version ----------

type Rng struct{ s uint64 }

func NewRng(seed uint64) *Rng { return &Rng{s: seed*0x9E3779B97F4A7C15 + 0x1234567} }

func (r *Rng) U64() uint64 {
	r.s += 0x9E3779B97F4A7C15
	z := r.s
	z = (z ^ (z >> 30)) * 0xBF58476D1CE4E5B9
	z = (z ^ (z >> 27)) * 0x94D049BB133111EB
	return z ^ (z >> 31)
}

// Float in [0,1)
func (r *Rng) F() float64 { return float64(r.U64()>>11) / float64(1<<53) }

// Intn in [0,n)
func (r *Rng) Intn(n int) int {
	if n <= 0 {
		return 0
	}
	return int(r.U64() % uint64(n))
}

// Range inclusive
func (r *Rng) Range(lo, hi int) int { return lo + r.Intn(hi-lo+1) }

func (r *Rng) Uniform(lo, hi float64) float64 { return lo + (hi-lo)*r.F() }

// hotGen: while a "hot" scenario is generated / written, every rarely taken choice (probability up to a third) is taken with
// probability one half: the rare features, each drawn independently with a few per cent, then meet in one project (4 % of the
// cases of the simulation checks). The number of draws stays the same, so all other scenarios are unchanged.
var hotGen bool

func (r *Rng) Bool(p float64) bool {
	if hotGen && p > 0 && p <= 0.34 {
		p = 0.5
	}
	return r.F() < p
}

func (r *Rng) Norm() float64 {
	u1 := r.F()
	if u1 < 1e-300 {
		u1 = 1e-300
	}
	u2 := r.F()
	return math.Sqrt(-2*math.Log(u1)) * math.Cos(2*math.Pi*u2)
}

func (r *Rng) Pick(n int) int { return r.Intn(n) }

// Shuffle: Fisher-Yates
func (r *Rng) Shuffle(n int, swap func(i, j int)) {
	for i := n - 1; i > 0; i-- {
		swap(i, r.Intn(i+1))
	}
}

func pickS(r *Rng, xs []string) string { return xs[r.Intn(len(xs))] }
func pickI(r *Rng, xs []int) int       { return xs[r.Intn(len(xs))] }

// derive a sub-seed
func mix(a, b uint64) uint64 {
	x := a ^ (b+0x9E3779B97F4A7C15)*0xBF58476D1CE4E5B9
	x ^= x >> 29
	x *= 0x94D049BB133111EB
	x ^= x >> 32
	return x
}

// ---------- calendar (independent oracle: Go time package) ----------

var epoch = time.Date(1900, 12, 31, 0, 0, 0, 0, time.UTC)

// Date is a calendar date.
type Date struct{ Y, M, D int }

func (d Date) T() time.Time { return time.Date(d.Y, time.Month(d.M), d.D, 0, 0, 0, 0, time.UTC) }

// Zeit is the model's absolute day number: 1 = 1901-01-01.
func (d Date) Zeit() int { return int(d.T().Sub(epoch).Hours()/24 + 0.5) }

func (d Date) DOY() int { return d.T().YearDay() }

func DateOfZeit(z int) Date {
	t := epoch.AddDate(0, 0, z)
	return Date{t.Year(), int(t.Month()), t.Day()}
}

func (d Date) AddDays(n int) Date {
	t := d.T().AddDate(0, 0, n)
	return Date{t.Year(), int(t.Month()), t.Day()}
}

func (d Date) String() string { return fmt.Sprintf("%04d-%02d-%02d", d.Y, d.M, d.D) }

func isLeap(y int) bool { return y%4 == 0 && (y%100 != 0 || y%400 == 0) }

func yearLen(y int) int {
	if isLeap(y) {
		return 366
	}
	return 365
}

// Date formats of the model: 0 DEshort ddmmyy, 1 DElong ddmmyyyy, 2 ENshort mmddyy, 3 ENlong mmddyyyy
var dateFormatNames = []string{"DateDEshort", "DateDElong", "DateENshort", "DateENlong"}

// FmtDate renders a date as input text for the given model date format (no separators).
func FmtDate(d Date, format int) string {
	switch format {
	case 0:
		return fmt.Sprintf("%02d%02d%02d", d.D, d.M, d.Y%100)
	case 1:
		return fmt.Sprintf("%02d%02d%04d", d.D, d.M, d.Y)
	case 2:
		return fmt.Sprintf("%02d%02d%02d", d.M, d.D, d.Y%100)
	default:
		return fmt.Sprintf("%02d%02d%04d", d.M, d.D, d.Y)
	}
}

// FmtDateSep renders with a separator character between the parts.
func FmtDateSep(d Date, format int, sep string) string {
	switch format {
	case 0:
		return fmt.Sprintf("%02d%s%02d%s%02d", d.D, sep, d.M, sep, d.Y%100)
	case 1:
		return fmt.Sprintf("%02d%s%02d%s%04d", d.D, sep, d.M, sep, d.Y)
	case 2:
		return fmt.Sprintf("%02d%s%02d%s%02d", d.M, sep, d.D, sep, d.Y%100)
	default:
		return fmt.Sprintf("%02d%s%02d%s%04d", d.M, sep, d.D, sep, d.Y)
	}
}

// FmtDayMonth renders the 4-character annual output date in the order of the format.
func FmtDayMonth(day, month, format int) string {
	if format == 0 || format == 1 {
		return fmt.Sprintf("%02d%02d", day, month)
	}
	return fmt.Sprintf("%02d%02d", month, day)
}

// KalenderText is what the model prints for a date (separator '.').
func KalenderText(d Date, format int) string { return FmtDateSep(d, format, ".") }

func finite(x float64) bool { return !math.IsNaN(x) && !math.IsInf(x, 0) }

func maxf(a, b float64) float64 {
	if a > b {
		return a
	}
	return b
}
func minf(a, b float64) float64 {
	if a < b {
		return a
	}
	return b
}
func absf(a float64) float64 { return math.Abs(a) }
func mini(a, b int) int {
	if a < b {
		return a
	}
	return b
}
func maxi(a, b int) int {
	if a > b {
		return a
	}
	return b
}
