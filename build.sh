#!/bin/bash
# Builds the harness (tag verif) and, for the properties that need them, the real binaries from the repository under
# check: /repo's working tree, or the scratch worktree named by VERIF_REPO (evaluation of seeded changes; output then
# goes to VERIF_BUILD so that the binaries of the unchanged tree are never overwritten).
set -eu
cd "$(dirname "$0")"
. ./env.sh
REPO="${VERIF_REPO:-/repo}"
OUT="${VERIF_BUILD:-$PWD/.build}"
mkdir -p "$OUT"
PROP="${1:-all}"
MODFLAG=""
if [ "$REPO" != "/repo" ]; then
  # same harness sources, module file with the replace directive pointing at the scratch worktree
  mkdir -p "$OUT/mod"
  sed "s#=> /repo/hermes#=> $REPO/hermes#" harness/go.mod > "$OUT/mod/go.mod"
  cp harness/go.sum "$OUT/mod/go.sum"
  MODFLAG="-modfile=$OUT/mod/go.mod"
fi
( cd harness && go build $MODFLAG -tags verif -o "$OUT/vmon" . )
case "$PROP" in C03|all) ( cd harness && go build $MODFLAG -race -tags verif -o "$OUT/vmon_race" . );; esac
need_bins=0
case "$PROP" in C03|C11|C13|C17|all) need_bins=1;; esac
if [ $need_bins = 1 ]; then
  # repository binaries: workspace mode (go.work), no -mod flag
  ( cd "$REPO/src/hermes2go" && env -u GOFLAGS GOWORK= go build -tags verif -race -o "$OUT/hermes2go_race" . )
  ( cd "$REPO/src/hermes2go" && env -u GOFLAGS GOWORK= go build -tags verif -o "$OUT/hermes2go" . )
  ( cd "$REPO/src/calcHermesBatch" && env -u GOFLAGS GOWORK= go build -o "$OUT/calcHermesBatch" . )
  ( cd "$REPO/src/cropfileconverter" && env -u GOFLAGS GOWORK= go build -o "$OUT/cropfileconverter" . )
fi
