package hermes

// Demonstration for property C08 ("root water uptake never exceeds the plant-available
// water of the layer; the stress ratios handed to the crop model ...").
//
// Evatra() limits the uptake of a layer to the water the layer holds above the wilting
// point by computing the deficit TDEFT (cm) and moving it to deeper rooted layers.
// The clamp of that deficit compares / assigns TP/DZ (cm per dm) instead of TP (cm)
// (water.go, "if TDEFT > g.TP[index]/g.DZ.Num { TDEFT = g.TP[index] / g.DZ.Num }"),
// so at most 10 % of the uptake of a layer is ever taken back. A layer that is at the
// wilting point is therefore left with up to 90 % of the uptake assigned to it, the
// transpiration deficit is not passed on to the deeper roots, and TRREL / ETREL are
// computed from water that does not exist. Water() later clips TP silently.
//
// Part "kernel" calls the real Evatra() on the state of the shipped MUN example on
// 08.06.2014 (7 mm of rain on a top soil at the wilting point).
// Part "example_MUN" runs the shipped example project MUN (plot 00001) unchanged and
// compares, day by day, the transpiration Evatra reported to the crop model
// (TRREL * Tpot) with the uptake that the layers could deliver (sum of TP after Water()).

import (
	"fmt"
	"io"
	"math"
	"os"
	"path/filepath"
	"strings"
	"testing"
)

func c08CopyDir(t *testing.T, src, dst string) {
	t.Helper()
	err := filepath.Walk(src, func(p string, info os.FileInfo, err error) error {
		if err != nil {
			return err
		}
		rel, _ := filepath.Rel(src, p)
		target := filepath.Join(dst, rel)
		if info.IsDir() {
			return os.MkdirAll(target, 0o755)
		}
		in, err := os.Open(p)
		if err != nil {
			return err
		}
		defer in.Close()
		out, err := os.Create(target)
		if err != nil {
			return err
		}
		defer out.Close()
		_, err = io.Copy(out, in)
		return err
	})
	if err != nil {
		t.Fatal(err)
	}
}

// daily output configuration: only the columns are chosen here, the model input is untouched
func c08DailyConf(cols []string) string {
	var sb strings.Builder
	sb.WriteString("FillCharacter: ' '\nSeperatorCharacter: ','\nNaValue: n.a.\nDataColumns:\n")
	for _, c := range cols {
		parts := strings.Split(c, "|")
		name := parts[0]
		sb.WriteString("- Format: '" + parts[1] + "'\n  DataAlignment: left\n  Width: 8\n")
		if i := strings.Index(name, "["); i >= 0 {
			idx := strings.Split(strings.Trim(name[i:], "[]"), "][")
			sb.WriteString("  VariableName: " + name[:i] + "\n  VarIndex1: " + idx[0] + "\n")
			if len(idx) > 1 {
				sb.WriteString("  VarIndex2: " + idx[1] + "\n")
			}
		} else {
			sb.WriteString("  VariableName: " + name + "\n")
		}
	}
	sb.WriteString("Headlines:\n  1:\n")
	for i, c := range cols {
		name := strings.NewReplacer("[", "_", "]", "").Replace(strings.Split(c, "|")[0])
		sb.WriteString(fmt.Sprintf("  - ColumnName: %s\n    TextAlignment: left\n    StartColumn: %d\n    EndColumn: %d\n    FillCharacter: ' '\n", name, i+1, i+1))
	}
	return sb.String()
}

func TestC08UptakeExceedsPlantAvailableWater(t *testing.T) {

	// ------------------------------------------------------------------------------------
	// Part 1: the real Evatra() on one day (state of example MUN, plot 00001, 08.06.2014)
	// ------------------------------------------------------------------------------------
	t.Run("kernel", func(t *testing.T) {
		g := NewGlobalVarsMain()
		l := WaterSharedVars{}
		g.N = 20
		// soil of example MUN, SID 001 (SL3/SL4/SLU): wilting point, field capacity, pore volume
		for i := 0; i < 20; i++ {
			switch {
			case i < 3:
				g.WMIN[i], g.WNOR[i], g.PORGES[i] = 0.08, 0.25, 0.40
			case i < 6:
				g.WMIN[i], g.WNOR[i], g.PORGES[i] = 0.08, 0.24, 0.40
			case i < 9:
				g.WMIN[i], g.WNOR[i], g.PORGES[i] = 0.10, 0.25, 0.34
			default:
				g.WMIN[i], g.WNOR[i], g.PORGES[i] = 0.11, 0.29, 0.37
			}
			g.W[i] = g.WNOR[i]
		}
		// water contents at the beginning of 08.06.2014 (end of 07.06.2014 in the example run)
		start := []float64{0.0787, 0.0807, 0.0839, 0.0847, 0.0894, 0.0969, 0.1272, 0.1506, 0.2477, 0.2885}
		for i := 0; i < 20; i++ {
			if i < len(start) {
				g.WG[1][i] = start[i]
			} else {
				g.WG[1][i] = 0.29
			}
		}
		g.WG[1][20] = g.WG[1][19]
		// winter barley in stage 4, LAI 2.98, 8 rooted layers, root length densities of that day
		g.AKF.SetByIndex(1)
		g.SAAT[1], g.ERNTE[1], g.ERNTE2[1] = 1000, 1400, 1400
		g.BEGINN = 900
		zeit := 1300
		g.INTWICK.SetByIndex(3)
		g.LAI = 2.980492764
		g.WURZ = 8
		copy(g.WUDICH[:], []float64{6.630236998, 4.209210045, 2.688791457, 1.729515071, 1.121220816, 0.7333764379, 0.4846248431, 0.3240703065})
		g.GRW = 24 // no ground water within the profile
		g.PROP = 2
		// weather of the day: 7 mm of rain; potential ET given as reference ET (method 5) to keep the state small
		g.TAG.SetByIndex(158)
		g.REGEN[g.TAG.Index] = 0.702 // cm
		g.ETMETH = 5
		g.ETNULL[g.TAG.Index] = 5.0 // mm
		g.FKC = 1.1
		g.FKB = 0.4

		Evatra(&l, &g, nil, zeit)

		sum := 0.0
		worst, worstLayer := 0.0, -1
		for i := 0; i < g.N; i++ {
			paw := math.Max(0, (g.WG[0][i]-g.WMIN[i])*g.DZ.Num) // cm of water above the wilting point
			sum += g.TP[i]
			t.Logf("layer %2d: uptake TP = %.4f cm, plant-available water = %.4f cm", i+1, g.TP[i], paw)
			if g.TP[i]-paw > worst {
				worst, worstLayer = g.TP[i]-paw, i
			}
		}
		t.Logf("TRREL handed to the crop model = %.3f, ETREL = %.3f, sum of uptake = %.4f cm", g.TRREL, g.ETREL, sum)
		if worst > 1e-9 {
			paw := math.Max(0, (g.WG[0][worstLayer]-g.WMIN[worstLayer])*g.DZ.Num)
			t.Errorf("C08 violated: Evatra takes %.4f cm out of layer %d, which holds only %.4f cm of plant-available water (water content %.4f, wilting point %.4f)",
				g.TP[worstLayer], worstLayer+1, paw, g.WG[0][worstLayer], g.WMIN[worstLayer])
		}
	})

	// ------------------------------------------------------------------------------------
	// Part 2: the shipped example project MUN, plot 00001, run unchanged
	// ------------------------------------------------------------------------------------
	t.Run("example_MUN", func(t *testing.T) {
		tmp := t.TempDir()
		for _, d := range []string{"project/MUN", "parameter", "weather/MUN"} {
			c08CopyDir(t, filepath.Join("..", "examples", d), filepath.Join(tmp, d))
		}
		cols := []string{"AKTUELL|%s", "AKF.Num|%.0f", "INTWICK.Num|%.0f", "WURZ|%d", "LAI|%.17g", "TRREL|%.17g", "VERDUNST|%.17g", "REGENdaily|%.6g"}
		for i := 0; i < 20; i++ {
			cols = append(cols, fmt.Sprintf("TP[%d]|%%.17g", i))
		}
		for i := 0; i < 20; i++ {
			cols = append(cols, fmt.Sprintf("WG[1][%d]|%%.10g", i))
		}
		for i := 0; i < 20; i++ {
			cols = append(cols, fmt.Sprintf("WMIN[%d]|%%.10g", i))
		}
		if err := os.WriteFile(filepath.Join(tmp, "project", "MUN", "dailyout_conf.yml"), []byte(c08DailyConf(cols)), 0o644); err != nil {
			t.Fatal(err)
		}
		res := filepath.Join(tmp, "RESULT")
		// the line of examples/old_format_mun_batch.txt, ending with the last complete weather year
		args := strings.Fields("project=MUN WeatherFolder=MUN soilId=001 fcode=NEU plotNr=00001 Altitude=55 Latitude=54.00 poligonID=MUN parameter=./parameter" +
			" StartYear=2009 EndDate=31122018 resultfolder=" + res)
		out := make(chan *RunReturn, 1)
		logout := make(chan string, 10000)
		session := NewHermesSession()
		session.Run(tmp, args, "C08", out, logout)
		session.Close()
		if r := <-out; !r.Success {
			t.Fatalf("run failed: %v", r.Err)
		}
		files, _ := filepath.Glob(filepath.Join(res, "V*"))
		if len(files) != 1 {
			t.Fatalf("daily output not found in %s", res)
		}
		data, err := os.ReadFile(files[0])
		if err != nil {
			t.Fatal(err)
		}
		num := func(s string) float64 {
			var v float64
			if _, err := fmt.Sscanf(s, "%g", &v); err != nil {
				t.Fatalf("cannot parse %q", s)
			}
			return v
		}
		var prev []string
		days, bad := 0, 0
		worstGap, worstMsg := 0.0, ""
		for _, line := range strings.Split(string(data), "\n")[1:] {
			f := strings.Fields(line)
			if len(f) < 8+60 {
				continue
			}
			if prev != nil {
				// crop stands during the whole day: emerged before, not harvested today
				standing := num(prev[2]) > 1 && num(prev[3]) > 0 && prev[1] == f[1]
				etp := num(f[6]) - num(prev[6]) // potential ET of the day (cm); VERDUNST is reset once a year
				if standing && etp > 0 {
					days++
					tpot := etp * (1 - math.Exp(-0.5*num(prev[4]))) // potential transpiration as split by Evatra
					reported := num(f[5]) * tpot                   // TRREL * Tpot = uptake Evatra booked for the day
					delivered := 0.0
					for i := 0; i < 20; i++ {
						delivered += num(f[8+i]) // uptake the layers could deliver (TP after the clip in Water)
					}
					if tpot > 0.01 && reported-delivered > 0.01 { // more than 0.1 mm
						bad++
						if reported-delivered > worstGap {
							worstGap = reported - delivered
							var sb strings.Builder
							for i := 0; i < int(num(prev[3])); i++ {
								paw := (num(prev[28+i]) - num(f[48+i])) * 10
								sb.WriteString(fmt.Sprintf("\n      layer %d: plant-available water at day start %.4f cm, uptake delivered %.4f cm", i+1, paw, num(f[8+i])))
							}
							worstMsg = fmt.Sprintf("%s (rain %.1f mm, LAI %.2f, %d rooted layers): TRREL handed to the crop = %.3f, i.e. Evatra took up %.4f cm; the rooted layers delivered %.4f cm (real Ta/Tp = %.3f)%s",
								f[0], num(f[7])*10, num(prev[4]), int(num(prev[3])), num(f[5]), reported, delivered, delivered/tpot, sb.String())
						}
					}
				}
			}
			prev = f
		}
		t.Logf("days with a standing crop: %d", days)
		if bad > 0 {
			t.Errorf("C08 violated on %d days: the uptake computed by Evatra exceeds the plant-available water of the layers by more than 0.1 mm.\n   worst day %s", bad, worstMsg)
		}
	})
}
