#!/bin/bash
# ./check.sh <property> <quick|thorough>    or    ./check.sh <property> --replay <dir>
# Rebuilds the harness (and what it needs) against /repo's current working tree with the
# verif hooks enabled, then runs the check. Exit: 0 held, 1 violation, 2 inconclusive.
# (VERIF_REPO / VERIF_BUILD / VERIF_EVIDENCE_DIR redirect it to a scratch worktree: only used to evaluate seeded changes.)
set -u
cd "$(dirname "$0")"
export VERIF_DIR="$PWD"
. ./env.sh
PROP="${1:-}"; MODE="${2:-quick}"
if [ -z "$PROP" ]; then echo "usage: $0 <property> <quick|thorough>|--replay <dir>"; exit 2; fi
BUILD="${VERIF_BUILD:-$PWD/.build}"
mkdir -p "$BUILD"
if ! ./build.sh "$PROP" > "$BUILD/build_$PROP.log" 2>&1; then
  echo "INCONCLUSIVE: build of the repository with hooks failed (see $BUILD/build_$PROP.log)"; tail -5 "$BUILD/build_$PROP.log"; exit 2
fi
export VERIF_SCRATCH="${VERIF_SCRATCH:-$(mktemp -d /tmp/verif.XXXXXX)}"
trap 'rm -rf "$VERIF_SCRATCH"' EXIT
if [ "$MODE" = "--replay" ]; then
  "$BUILD/vmon" replay "${3:-}"; exit $?
fi
"$BUILD/vmon" check "$PROP" "$MODE"
